"""Boot a zygote: fixed environment, extension finder, HoloPy import from the
repository's working tree, simulator-owned seams (DESIGN.md 2, Appendix C)."""
import importlib.abc
import importlib.machinery
import importlib.util
import os
import sys
import sysconfig

VERIF = os.path.dirname(os.path.dirname(os.path.abspath(__file__)))
REPO = os.environ.get('VERIF_REPO', '/repo')

FIXED_ENV = {
    'OPENBLAS_NUM_THREADS': '1', 'OMP_NUM_THREADS': '1',
    'MKL_NUM_THREADS': '1', 'NUMEXPR_NUM_THREADS': '1', 'TZ': 'UTC',
    'HOLOPY_VERIF': '1', 'MPLBACKEND': 'Agg', 'HDF5_USE_FILE_LOCKING': 'FALSE',
}


def needs_reexec():
    shim = os.path.join(VERIF, 'build', 'libsimio.so')
    if os.environ.get('VERIF_BOOTED') == '1':
        return False
    return True


def reexec(argv=None):
    """Re-exec the interpreter with the fixed environment (+LD_PRELOAD)."""
    from sim import build
    shim = build.ensure_shim()
    env = dict(os.environ)
    env.update(FIXED_ENV)
    env.setdefault('PYTHONHASHSEED', '0')
    env['LD_PRELOAD'] = shim
    env['VERIF_BOOTED'] = '1'
    env['PYTHONDONTWRITEBYTECODE'] = '1'
    os.execve(sys.executable, [sys.executable] + (argv or sys.argv), env)


class _ExtFinder(importlib.abc.MetaPathFinder):
    NAMES = {
        'holopy.scattering.theory.mie_f.mieangfuncs': ('mie_f', 'mieangfuncs'),
        'holopy.scattering.theory.mie_f.scsmfo_min': ('mie_f', 'scsmfo_min'),
        'holopy.scattering.theory.mie_f.uts_scsmfo': ('mie_f', 'uts_scsmfo'),
        'holopy.scattering.theory.tmatrix_f.S': ('tmatrix_f', 'S'),
    }

    def __init__(self, extdir):
        self.extdir = extdir

    def find_spec(self, fullname, path=None, target=None):
        if fullname not in self.NAMES:
            return None
        pkg, name = self.NAMES[fullname]
        fn = os.path.join(self.extdir, pkg,
                          name + sysconfig.get_config_var('EXT_SUFFIX'))
        loader = importlib.machinery.ExtensionFileLoader(fullname, fn)
        return importlib.util.spec_from_file_location(
            fullname, fn, loader=loader)


_booted = False


def boot(with_extensions=True):
    """Import HoloPy from REPO with extensions from /verif/build.  Idempotent."""
    global _booted
    if _booted:
        return
    sys.dont_write_bytecode = True
    if with_extensions:
        from sim import build
        extdir = build.ensure_extensions(REPO)
        sys.meta_path.insert(0, _ExtFinder(extdir))
    # the real sources, never an installed copy
    sys.path[:] = [p for p in sys.path if p not in ('', REPO)]
    sys.path.insert(0, REPO)
    import matplotlib
    matplotlib.use('Agg')
    import holopy  # noqa
    assert os.path.realpath(holopy.__file__).startswith(
        os.path.realpath(REPO)), holopy.__file__
    import holopy.scattering.theory.tmatrix as tm
    if with_extensions:
        assert tm.COMPILED_TMATRIX_FORTRAN
    from sim import seams
    seams.install()
    _booted = True
