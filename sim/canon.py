"""Canonical plain representation of results / objects, digests and diffs.

``plain(x)`` turns any value HoloPy returns or holds into a structure made of
dict / list / tuple-tagged lists / str / int / bool / None / float / complex /
numpy arrays, with no memory addresses and no hash-ordered iteration.
``digest`` hashes it; ``diff`` finds the first difference between two plains.
"""
import hashlib
import struct
import types

import numpy as np

try:
    import xarray as xr
except ImportError:          # pragma: no cover
    xr = None

MAXDEPTH = 40
# class name -> function(obj) giving what counts as the object's state
HOOKS = {}


def _strategy_state(x):
    # constructor arguments only: scratch attributes a strategy keeps between
    # fits ('reusable', not 'unchanged') are not part of its identity
    return {'args': dict(x._dict)}


HOOKS['NmpfitStrategy'] = _strategy_state
HOOKS['LeastSquaresScipyStrategy'] = _strategy_state


def _arr(a):
    a = np.asarray(a)
    if a.dtype == object:
        return {'__objarr__': [plain(i) for i in a.ravel().tolist()],
                'shape': list(a.shape)}
    return np.ascontiguousarray(a)


def plain(x, depth=0, memo=None):
    if depth > MAXDEPTH:
        return '<too deep>'
    if x is None or isinstance(x, (bool, int, str, bytes)):
        return x
    if isinstance(x, float):
        return x
    if isinstance(x, complex):
        return x
    if isinstance(x, np.generic):
        return {'__npscalar__': x.dtype.str, 'v': _arr(x)}
    if isinstance(x, np.ndarray):
        return _arr(x)
    if xr is not None and isinstance(x, xr.DataArray):
        coords = {}
        for k in sorted(map(str, x.coords)):
            c = x.coords[k]
            vals = c.values
            if vals.dtype == object:
                vals = [plain(v, depth + 1) for v in vals.tolist()]
            else:
                vals = _arr(vals)
            coords[k] = {'dims': list(c.dims), 'values': vals}
        return {'__da__': 1, 'values': _arr(x.values), 'dims': list(x.dims),
                'coords': coords,
                'attrs': plain(dict(x.attrs), depth + 1),
                'name': plain(x.name, depth + 1)}
    if xr is not None and isinstance(x, xr.Dataset):
        return {'__ds__': 1,
                'vars': {str(k): plain(x[k], depth + 1)
                         for k in sorted(map(str, x.data_vars))},
                'attrs': plain(dict(x.attrs), depth + 1)}
    if isinstance(x, dict):
        items = [(plain(k, depth + 1), plain(v, depth + 1))
                 for k, v in x.items()]
        try:
            items.sort(key=lambda kv: _keyrepr(kv[0]))
        except Exception:
            pass
        return {'__dict__': items}
    if isinstance(x, list):
        return [plain(i, depth + 1) for i in x]
    if isinstance(x, tuple):
        return {'__tuple__': [plain(i, depth + 1) for i in x]}
    if isinstance(x, (set, frozenset)):
        return {'__set__': sorted((plain(i, depth + 1) for i in x),
                                  key=_keyrepr)}
    if isinstance(x, (types.FunctionType, types.BuiltinFunctionType,
                      types.MethodType, np.ufunc)):
        return {'__func__': getattr(x, '__qualname__',
                                    getattr(x, '__name__', 'f'))}
    if isinstance(x, type):
        return {'__class__': x.__name__}
    if isinstance(x, BaseException):
        return {'__exc__': type(x).__name__, 'msg': str(x)}
    if type(x).__name__ in HOOKS:
        return {'__obj__': type(x).__name__,
                'canon': plain(HOOKS[type(x).__name__](x), depth + 1)}
    if hasattr(x, '__canon__'):
        return {'__obj__': type(x).__name__, 'canon': plain(x.__canon__(),
                                                            depth + 1)}
    # generic object: class name + instance dict
    d = getattr(x, '__dict__', None)
    if d is not None:
        return {'__obj__': type(x).__name__,
                'vars': plain(dict(d), depth + 1)}
    return {'__repr__': type(x).__name__}


def _keyrepr(p):
    h = hashlib.sha256()
    _feed(h, p)
    return h.hexdigest()


def _feed(h, p):
    if p is None:
        h.update(b'N')
    elif isinstance(p, bool):
        h.update(b'B1' if p else b'B0')
    elif isinstance(p, int):
        h.update(b'I' + str(p).encode())
    elif isinstance(p, float):
        h.update(b'F' + struct.pack('<d', p))
    elif isinstance(p, complex):
        h.update(b'C' + struct.pack('<dd', p.real, p.imag))
    elif isinstance(p, str):
        h.update(b'S' + str(len(p)).encode() + b':' + p.encode())
    elif isinstance(p, bytes):
        h.update(b'Y' + str(len(p)).encode() + b':' + p)
    elif isinstance(p, np.ndarray):
        h.update(b'A' + p.dtype.str.encode() + str(p.shape).encode())
        h.update(np.ascontiguousarray(p).tobytes())
    elif isinstance(p, list):
        h.update(b'L' + str(len(p)).encode())
        for i in p:
            _feed(h, i)
    elif isinstance(p, tuple):
        h.update(b'T' + str(len(p)).encode())
        for i in p:
            _feed(h, i)
    elif isinstance(p, dict):
        h.update(b'D' + str(len(p)).encode())
        for k in sorted(p):
            h.update(b'K' + str(k).encode())
            _feed(h, p[k])
    else:
        h.update(b'?' + type(p).__name__.encode())


def digest(p):
    h = hashlib.sha256()
    _feed(h, p)
    return h.hexdigest()[:32]


def fingerprint(x):
    return digest(plain(x))


def diff(a, b, path='$'):
    """First difference between two plains, as a short human string, or None."""
    if type(a) is not type(b):
        if not (isinstance(a, (int, float)) and isinstance(b, (int, float))
                and not isinstance(a, bool) and not isinstance(b, bool)):
            return '%s: type %s vs %s' % (path, type(a).__name__,
                                          type(b).__name__)
    if isinstance(a, np.ndarray):
        if a.dtype != b.dtype or a.shape != b.shape:
            return '%s: array %s%s vs %s%s' % (path, a.dtype, a.shape,
                                               b.dtype, b.shape)
        if a.tobytes() != b.tobytes():
            try:
                neq = ~((a == b) | ((a != a) & (b != b)))
                idx = np.argwhere(neq)
                i0 = tuple(idx[0]) if len(idx) else ()
                return '%s: %d/%d elements differ, first at %s: %r vs %r' % (
                    path, int(neq.sum()), a.size, i0,
                    a[i0] if len(idx) else None, b[i0] if len(idx) else None)
            except Exception:
                return '%s: array bytes differ' % path
        return None
    if isinstance(a, dict):
        ka, kb = sorted(a), sorted(b)
        if ka != kb:
            return '%s: keys %s vs %s' % (path, ka, kb)
        for k in ka:
            d = diff(a[k], b[k], path + '.' + str(k))
            if d:
                return d
        return None
    if isinstance(a, (list, tuple)):
        if len(a) != len(b):
            return '%s: length %d vs %d' % (path, len(a), len(b))
        for i, (x, y) in enumerate(zip(a, b)):
            d = diff(x, y, '%s[%d]' % (path, i))
            if d:
                return d
        return None
    if isinstance(a, float) and isinstance(b, float):
        if struct.pack('<d', a) != struct.pack('<d', b):
            return '%s: %r vs %r' % (path, a, b)
        return None
    if a != b:
        return '%s: %r vs %r' % (path, a, b)
    return None


def da_values(p):
    """values array of a plain DataArray (or the array itself)."""
    if isinstance(p, dict) and '__da__' in p:
        return p['values']
    return p


def unplain_dict(p):
    """plain dict -> python dict with plain values (keys must be simple)."""
    return {k: v for k, v in p['__dict__']}
