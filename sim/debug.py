"""Debug helper: execute one generated run (or a replay file) in this process
(as supervisor) and print records / violations.
  python sim/debug.py C01 --index 0 [--replay f] [--ops]"""
import argparse, json, os, sys
VERIF = os.path.dirname(os.path.dirname(os.path.abspath(__file__)))
sys.path.insert(0, VERIF)


def main():
    ap = argparse.ArgumentParser()
    ap.add_argument('prop'); ap.add_argument('--index', type=int, default=0)
    ap.add_argument('--seed', type=int, default=0)
    ap.add_argument('--replay'); ap.add_argument('--ops', action='store_true')
    ap.add_argument('--tier', default='quick')
    ap.add_argument('--payload', type=int, default=None)
    a = ap.parse_args()
    from sim import boot
    if boot.needs_reexec():
        boot.reexec([os.path.abspath(__file__)] + sys.argv[1:])
    boot.boot()
    from sim import props, runner, main as M
    prop = props.load(a.prop.upper())
    if a.replay:
        d = json.load(open(a.replay))
        run = {'seed': d['seed'], 'index': d.get('index', 0), 'config': d.get('config') or {}, 'events': d['events']}
    else:
        run = M.make_run(prop, a.seed, a.index, a.tier)
    ex = runner.execute(prop, run)
    for ev in run['events']:
        if 'id' not in ev:
            print('  ', ev['op']); continue
        r = ex.records.get(ev['id'], {})
        if a.ops:
            print(ev['id'], ev['op'], json.dumps(ev.get('args'))[:150], '->', r.get('outcome'), r.get('exc', ''), (r.get('msg') or '')[:100], r.get('warnings') or '', 'IMPURE %s' % r['impure'] if r.get('impure') else '')
        if a.payload == ev['id']:
            print(r.get('payload'))
            print('pristine:', ex.pristine.get(ev['id'], {}).get('payload'))
    for v in ex.violations:
        print('VIOL', v)
    st = dict(ex.stats); st['states'] = len(st['states'])
    print(st, ex.digest)


main()
