"""Simulator-owned seams, installed once in the zygote (DESIGN.md Appendix C).

All seams are module attributes, so nothing inside the repository is edited.
Every seam is *transparent* unless armed: it forwards to the real thing and
only records what passed through.
"""
import ctypes
import glob as _real_glob_mod
import os
import random as _pyrandom
import time as _real_time
import warnings

import numpy as np

# --------------------------------------------------------------------------
# clock
# --------------------------------------------------------------------------


class SimClock:
    """Stand-in for the ``time`` module in the strategy modules.  Only
    ``time()`` is served.  Advances by ``tick`` per call; jumps can be queued
    to fire at the n-th call counted from arming."""

    def __init__(self):
        self.now = 1.6e9
        self.tick = 0.25
        self.calls = 0
        self.jumps = {}      # call index -> delta
        self.freeze = False
        self.served = []

    def reset(self, epoch, tick):
        self.now = float(epoch)
        self.tick = float(tick)
        self.calls = 0
        self.jumps = {}
        self.freeze = False
        self.served = []

    def time(self):
        idx = self.calls
        self.calls += 1
        if idx in self.jumps:
            self.now += self.jumps.pop(idx)
        if not self.freeze:
            self.now += self.tick
        self.served.append(self.now)
        return self.now

    def __getattr__(self, name):          # anything else: the real module
        return getattr(_real_time, name)


CLOCK = SimClock()

# --------------------------------------------------------------------------
# glob
# --------------------------------------------------------------------------


class SimGlob:
    def __init__(self):
        self.perm_seed = None
        self.calls = 0

    def glob(self, *a, **k):
        res = _real_glob_mod.glob(*a, **k)
        self.calls += 1
        if self.perm_seed is not None:
            res = sorted(res)
            _pyrandom.Random(self.perm_seed * 1000003 + self.calls).shuffle(res)
        return res

    def __getattr__(self, name):
        return getattr(_real_glob_mod, name)


GLOB = SimGlob()

# --------------------------------------------------------------------------
# global numpy RNG: recording wrappers around the real legacy functions
# --------------------------------------------------------------------------

RNG_LOG = []
_REAL_RNG = {}


def _summ(x):
    if isinstance(x, np.ndarray):
        return ('arr', x.shape, float(x.min()) if x.size else None,
                float(x.max()) if x.size else None)
    if isinstance(x, (np.generic,)):
        return x.item()
    if isinstance(x, (list, tuple)):
        return tuple(_summ(i) for i in x)
    return x


def _wrap_rng(name):
    real = getattr(np.random, name)
    _REAL_RNG[name] = real

    def wrapper(*a, **k):
        out = real(*a, **k)
        entry = (name, tuple(_summ(i) for i in a),
                 tuple(sorted((kk, _summ(v)) for kk, v in k.items())))
        if name == 'choice':
            # what was drawn is *observed* (never prescribed) by oracles
            entry = entry + (np.array(out, copy=True),)
        RNG_LOG.append(entry)
        return out
    wrapper.__name__ = name
    wrapper.__wrapped__ = real
    return wrapper


class SimLiveness(Exception):
    """sample() kept drawing past the simulator's bound."""


class SimRandom:
    """Replacement for ``holopy.core.prior.random`` (C14).  Records every
    primitive call; variates come from a private RandomState, or from a script
    of adversarial-but-legal values."""

    def __init__(self):
        self.active = False
        self.calls = []
        self.rs = np.random.RandomState(0)
        self.script = []     # list of dicts consumed one per primitive call

    def reset(self, seed):
        self.calls = []
        self.rs = np.random.RandomState(seed)
        self.script = []

    MAX_CALLS = 400

    def _deliver(self, kind, params, size, fresh):
        if len(self.calls) >= self.MAX_CALLS:
            raise SimLiveness('%d primitive draws' % len(self.calls))
        out = fresh
        step = self.script.pop(0) if self.script else None
        if step is not None and step.get('kind', kind) == kind:
            out = step['fn'](np.array(fresh, dtype=float, copy=True), params)
            if size is None:
                out = float(np.asarray(out).reshape(-1)[0])
        self.calls.append({'kind': kind, 'params': params, 'size': size,
                           'out': np.array(out, copy=True)})
        return out

    def uniform(self, low=0.0, high=1.0, size=None):
        fresh = self.rs.uniform(low, high, size)
        return self._deliver('uniform', (low, high), size, fresh)

    def normal(self, loc=0.0, scale=1.0, size=None):
        fresh = self.rs.normal(loc, scale, size)
        return self._deliver('normal', (loc, scale), size, fresh)

    def __getattr__(self, name):
        return getattr(np.random, name)


SIMRANDOM = SimRandom()

# --------------------------------------------------------------------------
# warnings: one persistent hook, never catch_warnings (DESIGN 2.2)
# --------------------------------------------------------------------------

WARN_LOG = []


def _showwarning(message, category, filename, lineno, file=None, line=None):
    WARN_LOG.append((category.__name__, str(message)))


# --------------------------------------------------------------------------
# solver failure (F8) and cancellation (F9)
# --------------------------------------------------------------------------


class SolverFault:
    """Proxy for the scsmfo_min extension module whose amncalc can be armed
    to report non-convergence at its n-th call."""

    def __init__(self, real):
        self._real = real
        self.calls = 0
        self.fail_at = None
        self.fail_count = 1
        self.fired = 0
        self.mode = 'noconv'

    def amncalc(self, *a, **k):
        idx = self.calls
        self.calls += 1
        res = self._real.amncalc(*a, **k)
        if self.fail_at is not None and \
                self.fail_at <= idx < self.fail_at + self.fail_count:
            if idx == self.fail_at + self.fail_count - 1:
                self.fail_at = None
            self.fired += 1
            res = list(res)
            if self.mode == 'noconv':
                res[-1] = 0        # converged flag false
            else:
                res[2] = np.full_like(res[2], np.nan)
            return tuple(res)
        return res

    def __getattr__(self, name):
        return getattr(self._real, name)


SOLVER = None


class Interrupter:
    """Counts forward evaluations (ScatteringTheory raw_fields entry) through
    ImageFormation._get_field_from and raises KeyboardInterrupt at the n-th."""

    def __init__(self):
        self.calls = 0
        self.at = None
        self.fired = 0
        self.exc = KeyboardInterrupt


INTERRUPT = Interrupter()


def _wrap_get_field_from():
    from holopy.scattering import imageformation as imf
    real = imf.ImageFormation._get_field_from

    def _get_field_from(self, scatterer, schema):
        idx = INTERRUPT.calls
        INTERRUPT.calls += 1
        if INTERRUPT.at is not None and idx == INTERRUPT.at:
            INTERRUPT.at = None
            INTERRUPT.fired += 1
            raise INTERRUPT.exc()
        return real(self, scatterer, schema)
    _get_field_from.__wrapped__ = real
    imf.ImageFormation._get_field_from = _get_field_from


# --------------------------------------------------------------------------
# shim control surface
# --------------------------------------------------------------------------


class Shim:
    def __init__(self):
        self.lib = None
        try:
            lib = ctypes.CDLL(None)
            lib.sim_set_root.argtypes = [ctypes.c_char_p]
            lib.sim_arm.argtypes = [ctypes.c_int] * 3
            lib.sim_calltype.argtypes = [ctypes.c_int]
            self.lib = lib
        except (AttributeError, OSError):
            self.lib = None

    @property
    def present(self):
        return self.lib is not None

    def set_root(self, path):
        if self.lib:
            self.lib.sim_set_root(path.encode() if path else None)

    def reset(self):
        if self.lib:
            self.lib.sim_reset()

    def arm(self, kind, index, err=0):
        if self.lib:
            self.lib.sim_arm(kind, index, err)

    def disarm(self):
        if self.lib:
            self.lib.sim_disarm()

    def count(self):
        return self.lib.sim_count() if self.lib else 0

    def fired(self):
        return self.lib.sim_fired() if self.lib else 0

    def calltypes(self):
        if not self.lib:
            return []
        return [self.lib.sim_calltype(i) for i in range(self.lib.sim_count())]


SHIM = None


def install():
    global SOLVER, SHIM
    import holopy.inference.nmpfit as m1
    import holopy.inference.scipyfit as m2
    import holopy.inference.emcee as m3
    import holopy.inference.cmaes as m4
    for m in (m1, m2, m3, m4):
        if hasattr(m, 'time'):
            m.time = CLOCK
    import holopy.core.io.io as hio
    hio.glob = GLOB
    for name in ('seed', 'choice', 'uniform', 'normal', 'poisson'):
        setattr(np.random, name, _wrap_rng(name))
    import holopy.core.prior as prior
    # prior.random is numpy.random (same module object) -> already wrapped
    assert prior.random is np.random
    import holopy.scattering.theory.multisphere as ms
    if hasattr(ms, 'scsmfo_min'):
        SOLVER = SolverFault(ms.scsmfo_min)
        ms.scsmfo_min = SOLVER
    _wrap_get_field_from()
    warnings.showwarning = _showwarning
    SHIM = Shim()
