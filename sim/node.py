"""Nodes: real CPython processes forked from a zygote (DESIGN.md 2.1).

Supervisor side: ``Node`` (fork, call, kill).  Child side: ``_child_main``
executes operations from the registry in ``sim.ops`` against an object table
and reports outcome, payload, purity and hidden-state fingerprints.
"""
import os
import pickle
import select
import signal
import struct
import sys
import time
import traceback

from sim import canon


class NodeDied(Exception):
    def __init__(self, status, during):
        self.status = status
        self.during = during
        super().__init__('node died (status %r) during %r' % (status, during))


class NodeTimeout(Exception):
    pass


def _send(fd, obj):
    data = pickle.dumps(obj, protocol=4)
    data = struct.pack('<Q', len(data)) + data
    view = memoryview(data)
    while view:
        n = os.write(fd, view)
        view = view[n:]


def _recv_exact(fd, n, deadline):
    chunks = []
    while n:
        if deadline is not None:
            left = deadline - time.monotonic()
            if left <= 0:
                raise NodeTimeout()
            r, _, _ = select.select([fd], [], [], left)
            if not r:
                raise NodeTimeout()
        b = os.read(fd, min(n, 1 << 20))
        if not b:
            raise EOFError()
        chunks.append(b)
        n -= len(b)
    return b''.join(chunks)


def _recv(fd, deadline=None):
    hdr = _recv_exact(fd, 8, deadline)
    (n,) = struct.unpack('<Q', hdr)
    return pickle.loads(_recv_exact(fd, n, deadline))


class Node:
    """Supervisor-side handle of a forked node."""

    def __init__(self, root, np_seed, label='history', config=None):
        self.root = root
        self.label = label
        p2c_r, p2c_w = os.pipe()
        c2p_r, c2p_w = os.pipe()
        sys.stdout.flush()
        sys.stderr.flush()
        pid = os.fork()
        if pid == 0:
            try:
                os.close(p2c_w)
                os.close(c2p_r)
                signal.signal(signal.SIGINT, signal.SIG_DFL)
                dn = os.open(os.devnull, os.O_WRONLY)
                os.dup2(dn, 1)       # Fortran unit 6 chatter
                if not os.environ.get('VERIF_NODE_STDERR'):
                    # libhdf5 / faulthandler chatter when a node dies under
                    # an injected fault; node deaths are reported as events
                    os.dup2(dn, 2)
                os.close(dn)
                _child_main(p2c_r, c2p_w, root, np_seed, config or {})
            except BaseException:
                traceback.print_exc()
                os._exit(70)
            os._exit(0)
        os.close(p2c_r)
        os.close(c2p_w)
        self.pid = pid
        self.w = p2c_w
        self.r = c2p_r
        self.alive = True
        self.exit_status = None

    def call(self, msg, timeout=120.0):
        if not self.alive:
            raise NodeDied(self.exit_status, msg.get('op', msg.get('cmd')))
        try:
            _send(self.w, msg)
            return _recv(self.r, time.monotonic() + timeout)
        except (EOFError, BrokenPipeError, ConnectionResetError):
            self._reap()
            raise NodeDied(self.exit_status, msg.get('op', msg.get('cmd')))
        except NodeTimeout:
            self.kill()
            raise

    def _reap(self):
        if not self.alive:
            return
        self.alive = False
        for fd in (self.w, self.r):
            try:
                os.close(fd)
            except OSError:
                pass
        try:
            _, st = os.waitpid(self.pid, 0)
            if os.WIFEXITED(st):
                self.exit_status = ('exit', os.WEXITSTATUS(st))
            elif os.WIFSIGNALED(st):
                self.exit_status = ('signal', os.WTERMSIG(st))
            else:
                self.exit_status = ('other', st)
        except ChildProcessError:
            self.exit_status = ('unknown', None)

    def kill(self):
        if not self.alive:
            return
        try:
            os.kill(self.pid, signal.SIGKILL)
        except ProcessLookupError:
            pass
        self._reap()

    def close(self):
        self.kill()


# ---------------------------------------------------------------------------
# child side
# ---------------------------------------------------------------------------


class Skip(Exception):
    """The operation cannot be executed in this node (handle unresolvable)."""


class Ctx:
    """Object table + helpers available to operations."""

    def __init__(self, root, config):
        self.root = root
        self.config = config
        self.objs = {}        # id -> object
        self.kinds = {}       # kind -> [ids in creation order]
        self.kind_of = {}     # id -> kind
        self.hist = {}        # id -> [op ids that created/mutated it]
        self.opid = None
        self.used = []
        self.resolved_args = None
        self.extra = {}
        self.pending_io_fault = None

    # -- handles ----------------------------------------------------------
    def resolve(self, h):
        if isinstance(h, dict) and 'ref' in h:
            oid = h['ref']
            if oid not in self.objs:
                raise Skip('ref %r not live' % (oid,))
            self.used.append(oid)
            return self.objs[oid]
        if isinstance(h, dict) and 'h' in h:
            ids = self.kinds.get(h['h'], [])
            if not ids:
                raise Skip('no live %s' % h['h'])
            oid = ids[h['i'] % len(ids)]
            self.used.append(oid)
            return self.objs[oid]
        return h

    def resolve_to_ref(self, h):
        if isinstance(h, dict) and 'h' in h and 'i' in h:
            ids = self.kinds.get(h['h'], [])
            if not ids:
                raise Skip('no live %s' % h['h'])
            return {'ref': ids[h['i'] % len(ids)]}
        return h

    def store(self, kind, obj, oid=None):
        oid = self.opid if oid is None else oid
        self.objs[oid] = obj
        self.kinds.setdefault(kind, []).append(oid)
        self.kind_of[oid] = kind
        self.hist[oid] = [self.opid]
        return oid

    def fingerprints(self):
        out = {}
        for oid, o in self.objs.items():
            try:
                out[oid] = canon.fingerprint(o)
            except Exception as e:       # pragma: no cover
                out[oid] = 'ERR:' + type(e).__name__
        return out


def _resolve_args(ctx, args):
    """Replace modulo handles by explicit refs, recursively."""
    if isinstance(args, dict):
        if 'h' in args and 'i' in args and len(args) == 2:
            return ctx.resolve_to_ref(args)
        return {k: _resolve_args(ctx, v) for k, v in args.items()}
    if isinstance(args, list):
        return [_resolve_args(ctx, v) for v in args]
    return args


def _child_main(rfd, wfd, root, np_seed, config):
    import numpy as np
    from sim import seams, ops, state
    os.makedirs(root, exist_ok=True)
    os.chdir(root)
    if seams.SHIM is not None:
        seams.SHIM.set_root(root)
        seams.SHIM.reset()
    seams._REAL_RNG['seed'](np_seed)
    seams.CLOCK.reset(config.get('epoch', 1.6e9), config.get('tick', 0.25))
    seams.GLOB.perm_seed = config.get('glob_seed')
    seams.GLOB.calls = 0
    ctx = Ctx(root, config)
    ops.load_all()
    while True:
        try:
            msg = _recv(rfd)
        except EOFError:
            return
        cmd = msg.get('cmd')
        if cmd == 'quit':
            _send(wfd, {'ok': True})
            return
        if cmd == 'op':
            rec = _run_op(ctx, msg['op'], msg.get('opts', {}))
            _send(wfd, rec)
            continue
        if cmd == 'state':
            _send(wfd, {'state': state.hidden_state_fp(),
                        'fps': ctx.fingerprints()})
            continue
        _send(wfd, {'error': 'unknown cmd %r' % (cmd,)})


def _run_op(ctx, op, opts):
    import numpy as np
    from sim import seams, ops, state
    name = op['op']
    fn = ops.REGISTRY.get(name)
    rec = {'id': op['id'], 'op': name}
    if fn is None:
        rec.update(outcome='skip', msg='unknown op')
        return rec
    spec = ops.SPECS[name]
    ctx.opid = op['id']
    ctx.used = []
    ctx.extra = {}
    want_purity = opts.get('purity', True)
    try:
        rargs = _resolve_args(ctx, op.get('args', {}))
    except Skip as e:
        rec.update(outcome='skip', msg=str(e))
        return rec
    rec['rargs'] = rargs
    before = ctx.fingerprints() if want_purity else {}
    del seams.WARN_LOG[:]
    del seams.RNG_LOG[:]
    rng_before = state.rng_fp()
    if op.get('tags', {}).get('rng_state'):
        rec['rng_state_before'] = np.random.get_state()
    clock0 = seams.CLOCK.calls
    sf0 = seams.SOLVER.fired if seams.SOLVER is not None else 0
    if0 = seams.INTERRUPT.fired
    try:
        result = fn(ctx, **rargs)
        rec['outcome'] = 'ok'
    except Skip as e:
        rec.update(outcome='skip', msg=str(e))
        return rec
    except KeyboardInterrupt as e:
        result = None
        rec.update(outcome='exc', exc='KeyboardInterrupt', msg=str(e))
    except Exception as e:
        result = None
        rec.update(outcome='exc', exc=type(e).__name__, msg=str(e)[:300])
        if opts.get('tb'):
            rec['tb'] = traceback.format_exc()[-1500:]
    rec['uses'] = list(dict.fromkeys(ctx.used))
    # mutation bookkeeping declared by the op spec
    for argname in spec.get('mutates', ()):
        h = rargs.get(argname)
        if isinstance(h, dict) and 'ref' in h and h['ref'] in ctx.hist:
            ctx.hist[h['ref']].append(op['id'])
    to_store = ctx.extra.pop('__store__', result)
    if rec['outcome'] == 'ok' and op.get('store'):
        ctx.store(op['store'], to_store)
    rec['hist'] = {oid: list(ctx.hist.get(oid, [])) for oid in rec['uses']}
    try:
        p = canon.plain(result)
        rec['payload'] = p
        rec['digest'] = canon.digest(p)
    except Exception as e:
        rec['payload'] = None
        rec['digest'] = 'CANON-ERR:' + type(e).__name__ + ':' + str(e)[:80]
    rec['warnings'] = list(seams.WARN_LOG)
    rec['rng_calls'] = list(seams.RNG_LOG)
    rec['rng_moved'] = state.rng_fp() != rng_before
    rec['clock_calls'] = seams.CLOCK.calls - clock0
    if seams.SHIM is not None:
        rec['io_fired'] = int(bool(ctx.extra.get('fired')))
    rec['extra'] = ctx.extra
    rec['faults'] = {
        'solver': (seams.SOLVER.fired if seams.SOLVER is not None else 0)
        - sf0,
        'interrupt': seams.INTERRUPT.fired - if0}
    if want_purity:
        after = ctx.fingerprints()
        mutated = sorted(
            (oid for oid in before
             if oid in after and after[oid] != before[oid]),
            key=str)
        allowed = set()
        for argname in tuple(spec.get('mutates', ())) + tuple(
                spec.get('lazy', ())):
            h = rargs.get(argname)
            if isinstance(h, dict) and 'ref' in h:
                allowed.add(h['ref'])
        if spec.get('mutates_used'):
            allowed.update(rec['uses'])
        rec['mutated'] = mutated
        rec['impure'] = [(oid, ctx.kind_of.get(oid)) for oid in mutated
                         if oid not in allowed]
    if opts.get('state', True):
        rec['state'] = state.hidden_state_fp()
    return rec
