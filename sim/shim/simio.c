/* LD_PRELOAD I/O fault shim for the HoloPy simulation (DESIGN.md 2.3, F2-F4).
 *
 * Passive unless a simulation root has been set: only file descriptors opened
 * on paths under that root are "tracked".  Every tracked call gets a sequence
 * number; one fault can be armed to fire at a chosen sequence number.
 *
 * Fault kinds (sim_arm(kind, index, err)):
 *   1 ERR    the call fails with errno=err (no effect on the file)
 *   2 SHORT  read/write transfers only half (>=1) of the bytes requested
 *   3 EINTR  the call fails with EINTR (nothing transferred)
 *   4 CRASH  the process _exit(77)s before the call is performed
 *   5 TORN   write performs half of the bytes, then the process _exit(77)s
 * A fault whose kind does not apply to the call type at that index does not
 * fire (sim_fired()==0), so the supervisor can count real firings.
 */
#define _GNU_SOURCE
#include <dlfcn.h>
#include <errno.h>
#include <fcntl.h>
#include <stdarg.h>
#include <stdio.h>
#include <stdlib.h>
#include <string.h>
#include <sys/types.h>
#include <unistd.h>

#define MAXFD 4096
#define LOGN 4096

enum { C_OPEN = 1, C_READ, C_WRITE, C_FSYNC, C_TRUNC, C_CLOSE, C_RENAME,
       C_UNLINK };

static char root[1024];
static size_t rootlen = 0;
static unsigned char tracked[MAXFD];
static int ncalls = 0;
static int arm_kind = 0, arm_index = -1, arm_err = 0, fired = 0;
static int fired_calltype = 0;
static unsigned char calllog[LOGN];

static int (*r_open)(const char *, int, ...);
static int (*r_open64)(const char *, int, ...);
static int (*r_openat)(int, const char *, int, ...);
static int (*r_openat64)(int, const char *, int, ...);
static ssize_t (*r_read)(int, void *, size_t);
static ssize_t (*r_write)(int, const void *, size_t);
static ssize_t (*r_pread)(int, void *, size_t, off_t);
static ssize_t (*r_pread64)(int, void *, size_t, off64_t);
static ssize_t (*r_pwrite)(int, const void *, size_t, off_t);
static ssize_t (*r_pwrite64)(int, const void *, size_t, off64_t);
static int (*r_fsync)(int);
static int (*r_fdatasync)(int);
static int (*r_ftruncate)(int, off_t);
static int (*r_ftruncate64)(int, off64_t);
static int (*r_close)(int);
static int (*r_rename)(const char *, const char *);
static int (*r_unlink)(const char *);

#define RESOLVE(name) \
    do { if (!r_##name) r_##name = dlsym(RTLD_NEXT, #name); } while (0)

/* ---- control surface ---------------------------------------------------- */
void sim_set_root(const char *p) {
    if (!p) { rootlen = 0; root[0] = 0; return; }
    strncpy(root, p, sizeof(root) - 1);
    root[sizeof(root) - 1] = 0;
    rootlen = strlen(root);
    while (rootlen > 1 && root[rootlen - 1] == '/') root[--rootlen] = 0;
}
void sim_reset(void) { ncalls = 0; fired = 0; fired_calltype = 0;
                       arm_kind = 0; arm_index = -1; }
void sim_arm(int kind, int index, int err) {
    arm_kind = kind; arm_index = index; arm_err = err; fired = 0;
    fired_calltype = 0; }
void sim_disarm(void) { arm_kind = 0; arm_index = -1; }
int sim_count(void) { return ncalls; }
int sim_fired(void) { return fired; }
int sim_fired_calltype(void) { return fired_calltype; }
int sim_calltype(int i) { return (i >= 0 && i < LOGN && i < ncalls)
                                 ? calllog[i] : 0; }
int sim_tracked_fds(void) { int n = 0; for (int i = 0; i < MAXFD; i++)
                             n += tracked[i]; return n; }

/* ---- helpers ------------------------------------------------------------ */
static int under_root(const char *path) {
    if (!rootlen || !path) return 0;
    if (path[0] == '/') {
        return strncmp(path, root, rootlen) == 0 &&
               (path[rootlen] == '/' || path[rootlen] == 0);
    } else {
        char cwd[1024];
        if (!getcwd(cwd, sizeof cwd)) return 0;
        return strncmp(cwd, root, rootlen) == 0 &&
               (cwd[rootlen] == '/' || cwd[rootlen] == 0);
    }
}
static int is_tracked(int fd) { return fd >= 0 && fd < MAXFD && tracked[fd]; }

/* returns the fault kind to apply to this call (0 = none) */
static int tick(int calltype) {
    int idx = ncalls++;
    if (idx < LOGN) calllog[idx] = (unsigned char)calltype;
    if (arm_kind && idx == arm_index) {
        int k = arm_kind, ok = 0;
        switch (k) {
        case 1: ok = (calltype != C_CLOSE); break;
        case 2: ok = (calltype == C_READ || calltype == C_WRITE); break;
        case 3: ok = (calltype == C_READ || calltype == C_WRITE ||
                      calltype == C_OPEN); break;
        case 4: ok = 1; break;
        case 5: ok = (calltype == C_WRITE); break;
        }
        arm_kind = 0;
        if (ok) { fired = 1; fired_calltype = calltype; return k; }
    }
    return 0;
}

/* ---- open family -------------------------------------------------------- */
#define OPEN_BODY(realcall, pathv)                                        \
    mode_t mode = 0;                                                       \
    if (flags & (O_CREAT | O_TMPFILE)) {                                   \
        va_list ap; va_start(ap, flags); mode = va_arg(ap, mode_t);        \
        va_end(ap); }                                                      \
    int tr = under_root(pathv);                                            \
    if (tr) {                                                              \
        int k = tick(C_OPEN);                                              \
        if (k == 4) _exit(77);                                             \
        if (k == 1) { errno = arm_err; return -1; }                        \
        if (k == 3) { errno = EINTR; return -1; }                          \
    }                                                                      \
    int fd = realcall;                                                     \
    if (fd >= 0 && fd < MAXFD) tracked[fd] = tr ? 1 : 0;                   \
    return fd;

int open(const char *path, int flags, ...) {
    RESOLVE(open);
    OPEN_BODY(r_open(path, flags, mode), path)
}
int open64(const char *path, int flags, ...) {
    RESOLVE(open64);
    OPEN_BODY(r_open64(path, flags, mode), path)
}
int openat(int dirfd, const char *path, int flags, ...) {
    RESOLVE(openat);
    const char *pv = (dirfd == AT_FDCWD || (path && path[0] == '/'))
                         ? path : NULL;
    OPEN_BODY(r_openat(dirfd, path, flags, mode), pv)
}
int openat64(int dirfd, const char *path, int flags, ...) {
    RESOLVE(openat64);
    const char *pv = (dirfd == AT_FDCWD || (path && path[0] == '/'))
                         ? path : NULL;
    OPEN_BODY(r_openat64(dirfd, path, flags, mode), pv)
}

/* ---- read family -------------------------------------------------------- */
#define READ_BODY(realfull, realhalf)                                      \
    if (is_tracked(fd)) {                                                  \
        int k = tick(C_READ);                                              \
        if (k == 4) _exit(77);                                             \
        if (k == 1) { errno = arm_err; return -1; }                        \
        if (k == 3) { errno = EINTR; return -1; }                          \
        if (k == 2 && n > 1) { size_t h = n / 2; (void)h; return realhalf; } \
    }                                                                      \
    return realfull;

ssize_t read(int fd, void *buf, size_t n) {
    RESOLVE(read);
    READ_BODY(r_read(fd, buf, n), r_read(fd, buf, h))
}
ssize_t pread(int fd, void *buf, size_t n, off_t off) {
    RESOLVE(pread);
    READ_BODY(r_pread(fd, buf, n, off), r_pread(fd, buf, h, off))
}
ssize_t pread64(int fd, void *buf, size_t n, off64_t off) {
    RESOLVE(pread64);
    READ_BODY(r_pread64(fd, buf, n, off), r_pread64(fd, buf, h, off))
}

/* ---- write family ------------------------------------------------------- */
#define WRITE_BODY(realfull, realhalf)                                     \
    if (is_tracked(fd)) {                                                  \
        int k = tick(C_WRITE);                                             \
        if (k == 4) _exit(77);                                             \
        if (k == 1) { errno = arm_err; return -1; }                        \
        if (k == 3) { errno = EINTR; return -1; }                          \
        if (k == 2 && n > 1) { size_t h = n / 2; (void)h; return realhalf; } \
        if (k == 5) { size_t h = n / 2; if (h) { ssize_t r_ = realhalf;    \
                      (void)r_; } _exit(77); }                             \
    }                                                                      \
    return realfull;

ssize_t write(int fd, const void *buf, size_t n) {
    RESOLVE(write);
    WRITE_BODY(r_write(fd, buf, n), r_write(fd, buf, h))
}
ssize_t pwrite(int fd, const void *buf, size_t n, off_t off) {
    RESOLVE(pwrite);
    WRITE_BODY(r_pwrite(fd, buf, n, off), r_pwrite(fd, buf, h, off))
}
ssize_t pwrite64(int fd, const void *buf, size_t n, off64_t off) {
    RESOLVE(pwrite64);
    WRITE_BODY(r_pwrite64(fd, buf, n, off), r_pwrite64(fd, buf, h, off))
}

/* ---- misc --------------------------------------------------------------- */
#define SIMPLE_BODY(ct, realcall)                                          \
    if (is_tracked(fd)) {                                                  \
        int k = tick(ct);                                                  \
        if (k == 4) _exit(77);                                             \
        if (k == 1) { errno = arm_err; return -1; }                        \
    }                                                                      \
    return realcall;

int fsync(int fd) { RESOLVE(fsync); SIMPLE_BODY(C_FSYNC, r_fsync(fd)) }
int fdatasync(int fd) { RESOLVE(fdatasync);
                        SIMPLE_BODY(C_FSYNC, r_fdatasync(fd)) }
int ftruncate(int fd, off_t len) { RESOLVE(ftruncate);
                                   SIMPLE_BODY(C_TRUNC, r_ftruncate(fd, len)) }
int ftruncate64(int fd, off64_t len) { RESOLVE(ftruncate64);
                               SIMPLE_BODY(C_TRUNC, r_ftruncate64(fd, len)) }

int close(int fd) {
    RESOLVE(close);
    if (is_tracked(fd)) {
        int k = tick(C_CLOSE);
        if (k == 4) _exit(77);
        tracked[fd] = 0;
    }
    return r_close(fd);
}

int rename(const char *a, const char *b) {
    RESOLVE(rename);
    if (under_root(a) || under_root(b)) {
        int k = tick(C_RENAME);
        if (k == 4) _exit(77);
        if (k == 1) { errno = arm_err; return -1; }
    }
    return r_rename(a, b);
}
int unlink(const char *a) {
    RESOLVE(unlink);
    if (under_root(a)) {
        int k = tick(C_UNLINK);
        if (k == 4) _exit(77);
        if (k == 1) { errno = arm_err; return -1; }
    }
    return r_unlink(a);
}
