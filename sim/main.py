"""Check driver: seeded search over simulated runs for one property.

  ./check C01 [--tier quick|thorough] [--runs N] [--jobs J] [--replay FILE]

Exit 0: property held on everything explored (known findings are listed as
KNOWN-FINDING lines).  Exit 1: VIOLATION line with a replay file.  Exit 2:
harness problem (never reported as a violation, never as success).
"""
import argparse
import faulthandler
import fnmatch
import json
import os
import random
import select
import signal
import sys
import time
import traceback

VERIF = os.path.dirname(os.path.dirname(os.path.abspath(__file__)))

TIERS = {
    'quick': {'budget_s': 75.0, 'selftest': 6},
    'thorough': {'budget_s': 900.0, 'selftest': 16},
}


def parse_args(argv):
    ap = argparse.ArgumentParser()
    ap.add_argument('prop')
    ap.add_argument('--tier', default=os.environ.get('VERIF_TIER') or 'quick')
    ap.add_argument('--runs', type=int, default=None)
    ap.add_argument('--jobs', type=int,
                    default=int(os.environ.get('VERIF_JOBS', '16')))
    ap.add_argument('--seed', type=int,
                    default=int(os.environ.get('VERIF_SEED', '0') or 0))
    ap.add_argument('--replay', default=None)
    ap.add_argument('--budget', type=float, default=None)
    ap.add_argument('--print-run', type=int, default=None,
                    help='print the generated events of run index N and exit')
    ap.add_argument('--no-evidence', action='store_true')
    ap.add_argument('--digests', default=None,
                    help='write {index: digest} of all runs to this file')
    ap.add_argument('--start', type=int, default=0)
    return ap.parse_args(argv)


def prop_number(pid):
    return int(pid[1:])


def make_run(prop, base_seed, index, tier):
    from sim.runner import splitmix64
    seed = splitmix64(base_seed, prop_number(prop.ID), index)
    rng = random.Random(seed)
    run = prop.generate(rng, tier)
    run['seed'] = seed
    run['index'] = index
    run['prop'] = prop.ID
    return run


# ---------------------------------------------------------------------------
# worker pool (fork, pipes, select)
# ---------------------------------------------------------------------------

def _worker_loop(rfd, wfd, prop, base_seed, tier):
    from sim import runner
    from sim.node import _recv, _send
    faulthandler.enable()
    while True:
        try:
            msg = _recv(rfd)
        except EOFError:
            os._exit(0)
        if msg is None:
            os._exit(0)
        idx = msg['index']
        t0 = time.monotonic()
        try:
            if 'run' in msg:
                run = msg['run']
            else:
                run = make_run(prop, base_seed, idx, tier)
            ex = runner.execute(prop, run)
            out = runner.summarize(ex)
            out['wall'] = time.monotonic() - t0
            if msg.get('want_run') or out['violations']:
                out['run'] = run
        except runner.HarnessTimeout as e:
            out = {'index': idx, 'timeout': str(e)}
        except BaseException as e:
            out = {'index': idx, 'error': type(e).__name__ + ': ' + str(e),
                   'tb': traceback.format_exc()[-3000:]}
        out['index'] = idx
        _send(wfd, out)


class Pool:
    def __init__(self, n, prop, base_seed, tier):
        self.workers = []
        for _ in range(n):
            p2c_r, p2c_w = os.pipe()
            c2p_r, c2p_w = os.pipe()
            sys.stdout.flush()
            pid = os.fork()
            if pid == 0:
                os.close(p2c_w)
                os.close(c2p_r)
                for w in self.workers:
                    os.close(w['w'])
                    os.close(w['r'])
                try:
                    _worker_loop(p2c_r, c2p_w, prop, base_seed, tier)
                finally:
                    os._exit(0)
            os.close(p2c_r)
            os.close(c2p_w)
            self.workers.append({'pid': pid, 'w': p2c_w, 'r': c2p_r,
                                 'busy': None, 'since': 0.0})

    def run(self, tasks, deadline=None, on_result=None, stall_s=600.0):
        """tasks: iterator of task dicts.  Returns list of results."""
        from sim.node import _recv, _send
        results = []
        tasks = iter(tasks)
        exhausted = False
        while True:
            for w in self.workers:
                if w['busy'] is None and not exhausted and w['pid']:
                    if deadline is not None and time.monotonic() > deadline:
                        exhausted = True
                        break
                    try:
                        t = next(tasks)
                    except StopIteration:
                        exhausted = True
                        break
                    _send(w['w'], t)
                    w['busy'] = t
                    w['since'] = time.monotonic()
            busy = [w for w in self.workers if w['busy'] is not None]
            if not busy:
                break
            r, _, _ = select.select([w['r'] for w in busy], [], [], 5.0)
            now = time.monotonic()
            for w in busy:
                if w['r'] in r:
                    try:
                        res = _recv(w['r'])
                    except EOFError:
                        res = {'index': w['busy']['index'],
                               'error': 'worker died'}
                        w['pid'] = 0
                    w['busy'] = None
                    results.append(res)
                    if on_result:
                        on_result(res)
                elif now - w['since'] > stall_s:
                    try:
                        os.kill(w['pid'], signal.SIGKILL)
                    except OSError:
                        pass
                    results.append({'index': w['busy']['index'],
                                    'timeout': 'worker stalled'})
                    w['busy'] = None
                    w['pid'] = 0
        return results

    def close(self):
        from sim.node import _send
        for w in self.workers:
            try:
                _send(w['w'], None)
            except OSError:
                pass
            try:
                os.close(w['w'])
                os.close(w['r'])
            except OSError:
                pass
        for w in self.workers:
            if w['pid']:
                try:
                    os.waitpid(w['pid'], 0)
                except ChildProcessError:
                    pass


def run_isolated(prop, run, timeout=900.0):
    """Execute one run in a fresh child of this (pristine) zygote."""
    pool = Pool(1, prop, 0, 'quick')
    try:
        res = pool.run([{'index': run.get('index', 0), 'run': run,
                         'want_run': False}], stall_s=timeout)
    finally:
        pool.close()
    return res[0]


# ---------------------------------------------------------------------------
# known findings
# ---------------------------------------------------------------------------

def load_known(pid):
    path = os.path.join(VERIF, 'known-findings.txt')
    known, fixed = [], []
    if not os.path.exists(path):
        return known, fixed
    for line in open(path):
        line = line.strip()
        if not line or line.startswith('#'):
            continue
        head, *tags = line.split(' #')
        kind, _, rest = head.partition(':')
        rest = rest.strip()
        if not rest.startswith('property=%s ' % pid):
            continue
        what = rest.split(' ', 1)[1]
        meta = {}
        for t in tags:
            k, _, v = t.partition('=')
            meta[k.strip()] = v.strip()
        entry = {'what': what, 'sig': meta.get('sig'),
                 'witness': meta.get('witness')}
        (known if kind == 'known' else fixed).append(entry)
    return known, fixed


def match_known(v, known):
    for k in known:
        if k['sig'] and fnmatch.fnmatchcase(v.get('sig', ''), k['sig']):
            return k
    return None


# ---------------------------------------------------------------------------
# minimisation (ddmin over the event list)
# ---------------------------------------------------------------------------

def _fails_same(prop, run, target, budget_end):
    if time.monotonic() > budget_end:
        return None
    res = run_isolated(prop, run)
    if 'violations' not in res:
        return None
    for v in res['violations']:
        if v['oracle'] == target['oracle'] and v.get('sig') == target.get('sig'):
            return v
    return None


def minimise(prop, run, target, budget_s=150.0):
    end = time.monotonic() + budget_s
    events = list(run['events'])

    def mk(evs):
        r = dict(run)
        r['events'] = evs
        return r
    best_v = target
    n = 2
    while len(events) >= 2 and time.monotonic() < end:
        chunk = max(1, len(events) // n)
        reduced = False
        for start in range(0, len(events), chunk):
            cand = events[:start] + events[start + chunk:]
            if not cand:
                continue
            v = _fails_same(prop, mk(cand), target, end)
            if v:
                events = cand
                best_v = v
                n = max(n - 1, 2)
                reduced = True
                break
        if not reduced:
            if chunk == 1:
                break
            n = min(len(events), n * 2)
    return mk(events), best_v


# ---------------------------------------------------------------------------
# main
# ---------------------------------------------------------------------------

def write_replay(pid, run, v, digest):
    d = os.path.join(VERIF, 'replays')
    os.makedirs(d, exist_ok=True)
    path = os.path.join(d, '%s-%s-%d.json' % (
        pid, v['oracle'].split('.', 1)[-1], run['seed']))
    with open(path, 'w') as f:
        json.dump({'property': pid, 'oracle': v['oracle'], 'sig': v.get('sig'),
                   'seed': run['seed'], 'index': run.get('index'),
                   'config': run.get('config'), 'events': run['events'],
                   'expected': {'digest': digest, 'message': v['msg'],
                                'op': v.get('op')}}, f, indent=1,
                  default=str)
    return path


def replay_file(prop, path):
    data = json.load(open(path))
    run = {'seed': data['seed'], 'index': data.get('index', 0),
           'config': data.get('config') or {}, 'events': data['events'],
           'prop': data['property']}
    res = run_isolated(prop, run)
    return data, res


def main(argv=None):
    args = parse_args(argv if argv is not None else sys.argv[1:])
    pid = args.prop.upper()
    t_start = time.monotonic()
    from sim import boot
    if boot.needs_reexec():
        boot.reexec([os.path.join(VERIF, 'sim', 'main.py')] + sys.argv[1:])
    faulthandler.enable()
    boot.boot()
    from sim import props, runner, evidence
    prop = props.load(pid)
    tier = args.tier if args.tier in TIERS else 'quick'
    cfg = dict(TIERS[tier])
    cfg.update(getattr(prop, 'TIERS', {}).get(tier, {}))
    if os.environ.get('VERIF_BUDGET_S'):
        cfg['budget_s'] = float(os.environ['VERIF_BUDGET_S'])
    if args.budget is not None:
        cfg['budget_s'] = args.budget

    if args.print_run is not None:
        run = make_run(prop, args.seed, args.print_run, tier)
        json.dump(run, sys.stdout, indent=1, default=str)
        print()
        return 0

    # ---- replay mode
    if args.replay:
        data, res = replay_file(prop, args.replay)
        if 'violations' not in res:
            print('HARNESS-ERROR replay could not run: %r' % (res,))
            return 2
        hit = [v for v in res['violations'] if v['oracle'] == data['oracle']]
        if hit:
            same = res['digest'] == data['expected'].get('digest')
            print('replayed: %s (digest %s)' % (
                hit[0]['msg'], 'identical' if same else 'differs'))
            print('VIOLATION property=%s replay=%s' % (pid, args.replay))
            return 1
        print('replay did not reproduce %s' % data['oracle'])
        return 0

    known, fixed = load_known(pid)
    exit_code = 0
    known_lines = []
    violations_out = []

    # ---- witnesses of known / fixed findings
    for entry in known:
        wit = entry.get('witness')
        if not wit:
            continue
        data, res = replay_file(prop, os.path.join(VERIF, wit))
        if 'violations' not in res:
            print('HARNESS-ERROR witness %s could not run: %r' % (wit, res))
            return 2
        hit = [v for v in res['violations']
               if fnmatch.fnmatchcase(v.get('sig', ''), entry['sig'])]
        if hit:
            known_lines.append(
                'KNOWN-FINDING: property=%s %s' % (pid, entry['what']))
        entry['still_fails'] = bool(hit)
    for entry in fixed:
        wit = entry.get('witness')
        if not wit:
            continue
        data, res = replay_file(prop, os.path.join(VERIF, wit))
        if 'violations' not in res:
            print('HARNESS-ERROR witness %s could not run: %r' % (wit, res))
            return 2
        hit = [v for v in res['violations'] if v['oracle'] == data['oracle']]
        if hit:
            print('fixed finding has returned: %s' % hit[0]['msg'])
            print('VIOLATION property=%s replay=%s' % (
                pid, os.path.join(VERIF, wit)))
            violations_out.append(hit[0])
            exit_code = 1

    # ---- search
    deadline = t_start + cfg['budget_s']
    nruns = args.runs if args.runs is not None else cfg.get('runs')
    pool = Pool(args.jobs, prop, args.seed, tier)
    agg = evidence.Aggregate(pid, tier, args.seed)
    first_bad = []
    walls = []
    errors = []
    timeouts = []

    def tasks():
        i = args.start
        while nruns is None or i < args.start + nruns:
            yield {'index': i, 'want_run': i < args.start + 3}
            i += 1

    def on_result(res):
        if 'error' in res:
            errors.append(res)
            return
        if 'timeout' in res:
            timeouts.append(res)
            return
        agg.add(res)
        walls.append((res.get('wall', 0), res['index']))
        for v in res['violations']:
            k = match_known(v, known)
            if k is not None:
                agg.known_seen(k['what'])
            else:
                first_bad.append((res['index'], v, res.get('run')))

    try:
        results = pool.run(tasks(), deadline=deadline, on_result=on_result)
        # determinism slice: re-run the first few seeds in other workers
        done = sorted(r['index'] for r in results if 'digest' in r)
        st = done[:cfg['selftest']]
        digests = {r['index']: r['digest'] for r in results if 'digest' in r}
        again = pool.run(reversed([{'index': i} for i in st]))
        mism = [(r['index'], digests[r['index']], r.get('digest'))
                for r in again if r.get('digest') != digests[r['index']]]
        agg.selftest(len(st), len(st) - len(mism))
    finally:
        pool.close()

    if args.digests:
        with open(args.digests, 'w') as f:
            json.dump({str(k): v for k, v in sorted(digests.items())}, f)

    if errors:
        for e in errors[:3]:
            print('HARNESS-ERROR run %s: %s\n%s' % (
                e['index'], e['error'], e.get('tb', '')))
        return 2
    if mism:
        print('HARNESS-ERROR nondeterministic runs (index, first, second): %r'
              % (mism[:5],))
        return 2
    if len(timeouts) > max(1, 0.01 * max(1, len(results))):
        print('HARNESS-ERROR %d/%d runs timed out' % (
            len(timeouts), len(results)))
        return 2
    agg.timeouts = len(timeouts)

    if first_bad and os.environ.get('VERIF_VERBOSE'):
        cnt = {}
        for idx, v, run in first_bad:
            cnt.setdefault(v.get('sig'), [0, v['msg'][:160]])[0] += 1
        for sg, (n_, m_) in sorted(cnt.items(), key=lambda kv: -kv[1][0]):
            print('SIG %5d  %s  | %s' % (n_, sg, m_.replace('\n', ' ')))
    if first_bad:
        first_bad.sort(key=lambda t: t[0])
        # report each distinct sig once; minimise the first
        seen = set()
        tries = {}
        unconfirmed = []
        for idx, v, run in first_bad:
            if v.get('sig') in seen:
                continue
            if run is None:
                run = make_run(prop, args.seed, idx, tier)
            # (1) confirm in a fresh process.  A violation that does not
            # reproduce there is not reported (its cause is not a function of
            # the seed: e.g. behaviour keyed on object addresses); other runs
            # with the same signature are tried before giving up on it.
            res = run_isolated(prop, run)
            conf = [x for x in res.get('violations', [])
                    if x['oracle'] == v['oracle']]
            if not conf:
                tries[v.get('sig')] = tries.get(v.get('sig'), 0) + 1
                unconfirmed.append((v['oracle'], idx, v['msg']))
                if tries[v.get('sig')] >= 4:
                    seen.add(v.get('sig'))
                continue
            seen.add(v.get('sig'))
            small, v2 = (run, conf[0])
            if len(seen) <= 2:
                small, v2 = minimise(prop, run, conf[0])
            final = run_isolated(prop, small)
            path = write_replay(pid, small, v2, final.get('digest'))
            print('violation [%s] run=%d seed=%d events=%d->%d: %s' % (
                v2['oracle'], idx, run['seed'], len(run['events']),
                len(small['events']), v2['msg']))
            print('VIOLATION property=%s replay=%s' % (pid, path))
            violations_out.append(v2)
            exit_code = 1
            if len(violations_out) >= 5:
                break
        for o_, i_, m_ in unconfirmed[:5]:
            print('unconfirmed: %s of run %d did not reproduce in a fresh '
                  'process: %s' % (o_, i_, m_[:160]))
        if unconfirmed and not violations_out:
            print('HARNESS-ERROR %d violation(s) seen, none reproduced on '
                  're-execution' % len(unconfirmed))
            return 2

    for line in known_lines:
        print(line)
    if os.environ.get('VERIF_VERBOSE'):
        walls.sort(reverse=True)
        print('slowest runs (s, index):', [(round(w, 1), i)
                                           for w, i in walls[:8]],
              'sum %.1f' % sum(w for w, _ in walls))
    wall = time.monotonic() - t_start
    if not args.no_evidence:
        evidence.write(agg, prop, wall, len(violations_out), known_lines)
    if agg.maxerr:
        print('max observed error by relation: %s' % json.dumps(
            {k: float('%.3g' % v) for k, v in sorted(agg.maxerr.items())}))
    print('%s %s: %d runs, %d ops, %.0f runs/h, %d violations, wall %.1fs' % (
        pid, tier, agg.runs, agg.total_ops(),
        agg.runs / max(wall, 1e-9) * 3600, len(violations_out), wall))
    return exit_code


if __name__ == '__main__':
    sys.path.insert(0, VERIF)
    try:
        rc = main()
    except SystemExit:
        raise
    except BaseException:
        traceback.print_exc()
        rc = 2
    sys.stdout.flush()
    os._exit(rc)
