"""Simulated worker pool for C12 (DESIGN.md F10).

Workers are real processes forked from the *master node* when the pool is
created (what a fork-start multiprocessing pool does); afterwards master and
workers accumulate different histories.  Tasks travel as pickles (so the
bound-method pickling registered by holopy.core.io.serialize is exercised).
A seeded schedule decides dispatch order, which worker gets which task,
duplicate deliveries and worker deaths (with retry on another worker).
"""
import os
import pickle
import random
import signal
import struct


def _send(fd, obj):
    data = pickle.dumps(obj, protocol=4)
    data = struct.pack('<Q', len(data)) + data
    view = memoryview(data)
    while view:
        n = os.write(fd, view)
        view = view[n:]


def _recv(fd):
    hdr = b''
    while len(hdr) < 8:
        b = os.read(fd, 8 - len(hdr))
        if not b:
            raise EOFError()
        hdr += b
    (n,) = struct.unpack('<Q', hdr)
    chunks = []
    while n:
        b = os.read(fd, min(n, 1 << 20))
        if not b:
            raise EOFError()
        chunks.append(b)
        n -= len(b)
    return pickle.loads(b''.join(chunks))


def _worker_main(rfd, wfd):
    while True:
        try:
            msg = _recv(rfd)
        except EOFError:
            os._exit(0)
        if msg is None:
            os._exit(0)
        kind, payload = msg
        try:
            fn, arg = pickle.loads(payload)
            res = ('ok', fn(arg))
        except BaseException as e:      # noqa
            res = ('exc', type(e).__name__ + ': ' + str(e)[:200])
        _send(wfd, res)


class Worker:
    def __init__(self, wid):
        self.wid = wid
        p2c_r, p2c_w = os.pipe()
        c2p_r, c2p_w = os.pipe()
        pid = os.fork()
        if pid == 0:
            # keep only this worker's own pipe ends
            for fd in range(3, 512):
                if fd not in (p2c_r, c2p_w):
                    try:
                        os.close(fd)
                    except OSError:
                        pass
            try:
                _worker_main(p2c_r, c2p_w)
            finally:
                os._exit(0)
        os.close(p2c_r)
        os.close(c2p_w)
        self.pid, self.w, self.r = pid, p2c_w, c2p_r
        self.alive = True
        self.tasks_done = 0

    def call(self, fn, arg, kill=False):
        payload = pickle.dumps((fn, arg), protocol=4)
        _send(self.w, ('task', payload))
        if kill:
            self.kill()
            raise EOFError()
        res = _recv(self.r)
        self.tasks_done += 1
        return res

    def kill(self):
        if self.alive:
            try:
                os.kill(self.pid, signal.SIGKILL)
            except ProcessLookupError:
                pass
            try:
                os.waitpid(self.pid, 0)
            except ChildProcessError:
                pass
            for fd in (self.w, self.r):
                try:
                    os.close(fd)
                except OSError:
                    pass
            self.alive = False


class SimPool:
    """Pool-like object (has ``map``) accepted by holopy's choose_pool."""

    def __init__(self, nworkers, seed, dup_rate=0.0, kill_rate=0.0,
                 reorder=True):
        self.rng = random.Random(seed)
        self.workers = [Worker(i) for i in range(nworkers)]
        self.dup_rate = dup_rate
        self.kill_rate = kill_rate
        self.reorder = reorder
        self.log = []           # (event, task index, worker id)
        self.replies = []       # (task index, worker id, status, value)
        self.deaths = 0

    def __canon__(self):
        return {'nworkers': len(self.workers), 'dup': self.dup_rate,
                'kill': self.kill_rate}

    def _live(self):
        return [w for w in self.workers if w.alive]

    def submit_to(self, wid, fn, arg):
        """Unrelated work for one worker (gives it a history)."""
        w = self.workers[wid % len(self.workers)]
        if w.alive:
            return w.call(fn, arg)
        return None

    def map(self, fn, iterable):
        tasks = list(enumerate(iterable))
        order = list(tasks)
        if self.reorder:
            self.rng.shuffle(order)
        out = {}
        for idx, arg in order:
            copies = 2 if self.rng.random() < self.dup_rate else 1
            got = None
            for c in range(copies):
                attempts = 0
                while True:
                    live = self._live()
                    if not live:
                        # every worker is gone: a real pool would respawn;
                        # here the master forks a new one
                        self.workers.append(Worker(len(self.workers)))
                        live = self._live()
                    w = self.rng.choice(live)
                    kill = (self.rng.random() < self.kill_rate and
                            attempts == 0 and len(live) > 0)
                    self.log.append(('SEND', idx, w.wid, kill))
                    try:
                        st, v = w.call(fn, arg, kill=kill)
                    except EOFError:
                        self.deaths += 1
                        self.log.append(('DIED', idx, w.wid))
                        attempts += 1
                        continue
                    self.log.append(('REPLY', idx, w.wid, st))
                    self.replies.append((idx, w.wid, st, v))
                    if got is None:
                        got = (st, v)
                    break
            out[idx] = got
        res = []
        for idx, _ in tasks:
            st, v = out[idx]
            if st != 'ok':
                raise RuntimeError('worker raised ' + str(v))
            res.append(v)
        return res

    def close(self):
        for w in self.workers:
            if w.alive:
                try:
                    _send(w.w, None)
                except OSError:
                    pass
                w.kill()
