"""Hidden (process-global) state fingerprints (DESIGN.md 2.2).

Used (a) as the state measure reported in the evidence and (b) for oracles on
state that must not accumulate (mutable defaults)."""
import hashlib
import inspect
import warnings
import zlib

import numpy as np

from sim import seams


def rng_fp():
    st = np.random.get_state()
    return zlib.crc32(st[1].tobytes()) ^ (st[2] * 2654435761 & 0xffffffff)


def _common_fp():
    out = []
    try:
        import holopy.scattering.theory.tmatrix_f.S as S
        for blk, names in (('cdrop', None), ('choice', None)):
            o = getattr(S, blk)
            for a in sorted(x for x in dir(o) if not x.startswith('_')):
                out.append(zlib.crc32(np.ascontiguousarray(
                    getattr(o, a)).tobytes()))
        for blk in ('ct', 'ctt', 'tmat99'):
            o = getattr(S, blk)
            for a in sorted(x for x in dir(o) if not x.startswith('_')):
                v = np.asarray(getattr(o, a)).reshape(-1, order='A')
                out.append(zlib.crc32(np.ascontiguousarray(
                    v[:4096:16]).tobytes()))
    except Exception:
        out.append(-1)
    try:
        real = seams.SOLVER._real if seams.SOLVER is not None else None
        if real is not None:
            o = real.consts
            out.append(zlib.crc32(np.ascontiguousarray(o.fnr).tobytes()))
            v = np.asarray(o.bcof).reshape(-1, order='A')
            out.append(zlib.crc32(np.ascontiguousarray(v[::64]).tobytes()))
    except Exception:
        out.append(-2)
    return zlib.crc32(repr(out).encode())


_DEFAULT_SITES = None


def _default_sites():
    global _DEFAULT_SITES
    if _DEFAULT_SITES is None:
        import holopy
        from holopy.inference import result, model
        from holopy.core import metadata, utils
        from holopy.scattering.theory import mielens
        from holopy.inference.third_party import nmpfit as tnm
        sites = [
            ('FitResult.__init__.kwargs', result.FitResult.__init__, 'kwargs'),
            ('SamplingResult.__init__.kwargs',
             result.SamplingResult.__init__, 'kwargs'),
            ('detector_points.coords', metadata.detector_points, 'coords'),
            ('updated.update', utils.updated, 'update'),
            ('MieLens.__init__.calculator_accuracy_kwargs',
             mielens.MieLens.__init__, 'calculator_accuracy_kwargs'),
            ('mpfit.__init__.functkw', tnm.mpfit.__init__, 'functkw'),
        ]
        objs = []
        for label, fn, arg in sites:
            try:
                sig = inspect.signature(fn)
                objs.append((label, sig.parameters[arg].default))
            except Exception:
                pass
        objs.append(('Model._model_parameters',
                     model.Model._model_parameters))
        _DEFAULT_SITES = objs
    return _DEFAULT_SITES


def defaults_state():
    """repr of every known mutable default / class-level mutable."""
    return {label: repr(obj) for label, obj in _default_sites()}


def warn_state():
    fl = []
    for f in warnings.filters:
        fl.append((f[0], getattr(f[1], 'pattern', None), f[2].__name__,
                   getattr(f[3], 'pattern', None), f[4]))
    return fl


def overlap_always_filter_count():
    n = 0
    for f in warnings.filters:
        if f[0] == 'always' and f[2].__name__ == 'OverlapWarning':
            n += 1
    return n


def yaml_tags():
    import yaml
    from holopy.core.holopy_object import FullLoader
    return sorted(t for t in FullLoader.yaml_constructors
                  if isinstance(t, str) and t.startswith('!') and
                  not t.startswith('!!'))


def hidden_state_fp():
    h = hashlib.sha256()
    h.update(str(_common_fp()).encode())
    h.update(str(rng_fp()).encode())
    h.update(repr(warn_state()).encode())
    h.update(repr(yaml_tags()).encode())
    h.update(repr(sorted(defaults_state().items())).encode())
    return h.hexdigest()[:16]
