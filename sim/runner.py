"""Execute one simulated run: history node, restarts, faults, pristine-node
refinement, purity, property oracles, event log digest (DESIGN.md 3, 4)."""
import hashlib
import json
import os
import shutil
import tempfile

from sim import canon
from sim.node import Node, NodeDied, NodeTimeout

OP_TIMEOUT = float(os.environ.get('VERIF_OP_TIMEOUT', '120'))
SUPERVISOR_EVENTS = ('RESTART',)


class HarnessTimeout(Exception):
    pass


def splitmix64(*vals):
    x = 0x9E3779B97F4A7C15
    for v in vals:
        x = (x ^ (int(v) & 0xFFFFFFFFFFFFFFFF)) & 0xFFFFFFFFFFFFFFFF
        x = (x + 0x9E3779B97F4A7C15) & 0xFFFFFFFFFFFFFFFF
        z = x
        z = ((z ^ (z >> 30)) * 0xBF58476D1CE4E5B9) & 0xFFFFFFFFFFFFFFFF
        z = ((z ^ (z >> 27)) * 0x94D049BB133111EB) & 0xFFFFFFFFFFFFFFFF
        x = z ^ (z >> 31)
    return x


def _tmp_root(tag):
    base = '/dev/shm' if os.path.isdir('/dev/shm') and os.access(
        '/dev/shm', os.W_OK) else None
    return tempfile.mkdtemp(prefix='hpsim-%s-' % tag, dir=base)


def violation(oracle, op, msg, sig=None, **kw):
    v = {'oracle': oracle, 'op': op, 'msg': msg,
         'sig': sig if sig is not None else oracle}
    v.update(kw)
    return v


class Execution:
    """State of one run while it executes (also what oracles look at)."""

    def __init__(self, run):
        self.run = run
        self.records = {}       # op id -> record (history node)
        self.pristine = {}      # op id -> record (pristine node)
        self.log = []           # event log (canonical tuples)
        self.violations = []
        self.stats = {
            'ops': {}, 'outcomes': {}, 'faults_fired': {}, 'node_deaths': 0,
            'restarts': 0, 'oracle_sim': 0, 'oracle_sampled': 0,
            'states': set(), 'pristine_nodes': 0, 'sim_seconds': 0.0,
            'known_seen': {},
        }
        self.events_by_id = {e['id']: e for e in run['events'] if 'id' in e}

    def fault(self, kind, n=1):
        if n:
            self.stats['faults_fired'][kind] = \
                self.stats['faults_fired'].get(kind, 0) + n

    def add(self, v):
        self.violations.append(v)


def _node_config(run, incarnation):
    cfg = dict(run.get('config', {}).get('node', {}))
    cfg['incarnation'] = incarnation
    return cfg


def _closure(ex, rec):
    """Op ids (sorted by event order) a pristine node must run before rec."""
    order = {e['id']: n for n, e in enumerate(ex.run['events']) if 'id' in e}
    need = set()
    stack = [(rec['id'], rec)]
    seen = set()
    while stack:
        oid, r = stack.pop()
        if oid in seen:
            continue
        seen.add(oid)
        for used in r.get('uses', []):
            for dep in r.get('hist', {}).get(used, []):
                if dep == rec['id'] or dep in need:
                    continue
                if order.get(dep, 1 << 60) >= order[rec['id']]:
                    continue
                need.add(dep)
                if dep in ex.records:
                    stack.append((dep, ex.records[dep]))
    return sorted(need, key=lambda i: order[i])


def _pristine_msg(ex, opid):
    ev = ex.events_by_id[opid]
    rec = ex.records[opid]
    return {'id': opid, 'op': ev['op'], 'args': rec['rargs'],
            'store': ev.get('store')}


def run_pristine(ex, rec, np_seed):
    """Re-run rec's operation (after its constructor closure) in a fresh node
    forked from the zygote; returns the pristine record."""
    deps = _closure(ex, rec)
    root = _tmp_root('p')
    node = Node(root, np_seed, label='pristine',
                config=_node_config(ex.run, -1))
    ex.stats['pristine_nodes'] += 1
    try:
        for d in deps:
            r = node.call({'cmd': 'op', 'op': _pristine_msg(ex, d),
                           'opts': {'purity': False, 'state': False}},
                          timeout=OP_TIMEOUT)
        return node.call({'cmd': 'op', 'op': _pristine_msg(ex, rec['id']),
                          'opts': {'purity': False, 'state': False}},
                         timeout=OP_TIMEOUT)
    except NodeDied as e:
        return {'id': rec['id'], 'outcome': 'died', 'status': e.status}
    except NodeTimeout:
        raise HarnessTimeout('pristine op %r' % (rec['id'],))
    finally:
        node.close()
        shutil.rmtree(root, ignore_errors=True)


def compare_records(a, b):
    """None if equal outcome; else message."""
    if a['outcome'] != b['outcome']:
        return 'outcome %s%s vs pristine %s%s' % (
            a['outcome'], '(' + a.get('exc', '') + ': ' + a.get('msg', '')[:80]
            + ')' if a['outcome'] == 'exc' else '',
            b['outcome'], '(' + b.get('exc', '') + ': ' + b.get('msg', '')[:80]
            + ')' if b['outcome'] == 'exc' else '')
    if a['outcome'] == 'exc':
        if a.get('exc') != b.get('exc'):
            return 'exception %s vs pristine %s' % (a.get('exc'), b.get('exc'))
        return None
    if a['outcome'] == 'ok' and a.get('digest') != b.get('digest'):
        d = canon.diff(a.get('payload'), b.get('payload'))
        return 'result differs from pristine node: %s' % (d or 'digest only')
    return None


def execute(prop, run):
    """Run the events; return the Execution (records, violations, digest)."""
    ex = Execution(run)
    pid = prop.ID
    root = _tmp_root('h')
    seed = run['seed']
    incarnation = 0
    node = Node(root, splitmix64(seed, 1000 + incarnation) % (2 ** 32),
                config=_node_config(run, incarnation))
    opts = {'purity': True, 'state': True}
    try:
        for ev in run['events']:
            name = ev['op']
            if name == 'RESTART':
                node.kill()
                incarnation += 1
                node = Node(root, splitmix64(seed, 1000 + incarnation)
                            % (2 ** 32),
                            config=_node_config(run, incarnation))
                ex.stats['restarts'] += 1
                ex.fault('F1-restart')
                ex.log.append(('RESTART', incarnation))
                continue
            ex.stats['ops'][name] = ex.stats['ops'].get(name, 0) + 1
            try:
                rec = node.call({'cmd': 'op', 'op': ev, 'opts': opts},
                                timeout=OP_TIMEOUT)
            except NodeDied as e:
                rec = {'id': ev['id'], 'op': name, 'outcome': 'died',
                       'status': e.status, 'rargs': ev.get('args')}
                ex.stats['node_deaths'] += 1
                ex.log.append(('NODE-DIED', ev['id'], str(e.status)))
                incarnation += 1
                node = Node(root, splitmix64(seed, 1000 + incarnation)
                            % (2 ** 32),
                            config=_node_config(run, incarnation))
            except NodeTimeout:
                tv = ev.get('tags', {}).get('timeout_violation')
                if not tv:
                    raise HarnessTimeout('op %r %s' % (ev['id'], name))
                # bounded liveness: the operation had to return
                rec = {'id': ev['id'], 'op': name, 'outcome': 'hung',
                       'rargs': ev.get('args')}
                ex.add(violation(
                    tv, ev['id'], '%s did not return within %.0f s' % (
                        name, OP_TIMEOUT), sig=tv + ':hang'))
                incarnation += 1
                node = Node(root, splitmix64(seed, 1000 + incarnation)
                            % (2 ** 32),
                            config=_node_config(run, incarnation))
            rec['incarnation'] = incarnation
            ex.records[ev['id']] = rec
            oc = rec['outcome']
            ex.stats['outcomes'][oc] = ex.stats['outcomes'].get(oc, 0) + 1
            f = rec.get('faults') or {}
            ex.fault('F8-solver', f.get('solver', 0))
            ex.fault('F9-interrupt', f.get('interrupt', 0))
            if rec.get('io_fired'):
                ex.fault('io-fault', 1)
            if name in ('rng_draws', 'rng_reseed') and oc == 'ok':
                ex.fault('F6-rng', 1)
            if name == 'clock_jump' and oc == 'ok':
                ex.fault('F7-clock', 1)
            ex.log.append((
                'OP', ev['id'], name, oc, rec.get('exc'), rec.get('digest'),
                tuple(tuple(w) for w in rec.get('warnings', [])),
                tuple(map(str, rec.get('impure', []))),
                bool(rec.get('rng_moved')), rec.get('clock_calls', 0),
                rec.get('state')))
            if rec.get('state') and oc in ('ok', 'exc'):
                ex.stats['states'].add((rec['state'], name,
                                        ev.get('tags', {}).get('k', '')))
        # ---- pristine-node refinement (4.1)
        for ev in run['events']:
            tags = ev.get('tags', {})
            if not tags.get('ref'):
                continue
            rec = ex.records.get(ev['id'])
            if rec is None or rec['outcome'] in ('skip', 'hung'):
                continue
            if rec['outcome'] == 'died' and not tags.get('ref_died', True):
                continue
            if rec['outcome'] == 'died':
                # need resolved args: re-resolve is impossible; skip ref
                continue
            if any((rec.get('faults') or {}).values()):
                # an injected solver failure / interrupt fired inside this
                # op (in a minimised sub-list it can land on another op than
                # the one it was generated for): the fault-free pristine
                # node is no reference for it
                continue
            if tags.get('rng_dependent') or any(
                    ex.events_by_id[d].get('tags', {}).get('rng_dependent')
                    for d in _closure(ex, rec)):
                # the result is *meant* to depend on the RNG position
                continue
            pr = run_pristine(
                ex, rec, splitmix64(seed, 7777, ev['id']) % (2 ** 32))
            ex.pristine[ev['id']] = pr
            ex.stats['oracle_sim'] += 1
            msg = compare_records(rec, pr)
            ex.log.append(('PRISTINE', ev['id'], pr.get('outcome'),
                           pr.get('digest'), msg is None))
            if msg is not None and not tags.get('ref_relaxed'):
                ex.add(violation(
                    pid + '.history', ev['id'],
                    '%s %s: %s' % (ev['op'], tags.get('k', ''), msg),
                    sig=pid + '.history'))
        # ---- purity (4.2)
        for ev in run['events']:
            rec = ex.records.get(ev.get('id'))
            if not rec or 'impure' not in rec:
                continue
            ex.stats['oracle_sim'] += 1
            if rec['impure'] and not ev.get('tags', {}).get('impure_ok'):
                ex.add(violation(
                    pid + '.purity', ev['id'],
                    '%s modified live object(s) %s that it does not own' % (
                        ev['op'], rec['impure']),
                    sig=pid + '.purity:' + ev['op']))
        # ---- property oracles
        prop.oracle(ex)
    finally:
        node.close()
        shutil.rmtree(root, ignore_errors=True)
    h = hashlib.sha256()
    h.update(repr(ex.log).encode())
    h.update(repr([(v['oracle'], v['op']) for v in ex.violations]).encode())
    ex.digest = h.hexdigest()[:32]
    return ex


def summarize(ex):
    """Small, picklable summary of an execution."""
    st = dict(ex.stats)
    st['states'] = sorted(ex.stats['states'])
    return {'seed': ex.run['seed'], 'index': ex.run.get('index'),
            'digest': ex.digest, 'violations': ex.violations, 'stats': st,
            'nevents': len(ex.run['events'])}
