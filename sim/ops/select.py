"""Pixel selection: subsets, crops, explicit point lists."""
import numpy as np

from sim.ops import op
from sim.ops.core import val


@op('make_subset')
def make_subset(ctx, det, pixels=None, seed=None, return_selection=False):
    from holopy.core.metadata import make_subset_data
    d = val(ctx, det)
    out = make_subset_data(d, pixels=pixels, seed=seed,
                           return_selection=return_selection)
    if return_selection:
        sub, sel = out
        ctx.extra['selection'] = np.array(sel)
        return sub
    return out


@op('subimage')
def subimage(ctx, det, center, shape):
    from holopy.core.process import subimage as _sub
    d = val(ctx, det)
    shp = shape if not isinstance(shape, list) else tuple(shape)
    return _sub(d, tuple(center), shp)


@op('points_from_grid')
def points_from_grid(ctx, det, perm_seed, k=None, optics_from=True,
                     tilt=None, only=None, spread=None, as_float=False,
                     sph_about=None):
    """detector_points listing (a subset of) the grid's coordinates in a
    seeded permutation (local RandomState)."""
    import holopy as hp
    from holopy.core.metadata import update_metadata
    d = val(ctx, det)
    xs, ys, zs = np.meshgrid(d.x.values, d.y.values, d.z.values,
                             indexing='ij')
    xs, ys, zs = xs.ravel(), ys.ravel(), zs.ravel()
    rs = np.random.RandomState(perm_seed)
    order = rs.permutation(len(xs))
    if k is not None:
        order = order[:k]
    zz = zs[order].astype(float)
    if tilt is not None:
        # a detector that is very slightly tilted: z varies with x
        zz = zz + tilt * (xs[order] - xs.min())
    if spread is not None:
        # points at very different distances (0.1 ... 500 um further away)
        zz = zz - 10 ** np.random.RandomState(spread).uniform(
            -1, 2.7, size=len(zz))
    xo, yo = xs[order], ys[order]
    if as_float:
        # the same locations written as floating-point numbers
        xo, yo = xo.astype(float), yo.astype(float)
    if only is not None:
        sel = [i % len(xo) for i in only]
        xo, yo, zz = xo[sel], yo[sel], zz[sel]
    if sph_about is not None:
        # the same locations written as (r, theta, phi) about a particle at
        # ``sph_about`` (z towards the detector counts negative, as in the
        # Cartesian route)
        dx, dy, dz = xo - sph_about[0], yo - sph_about[1], sph_about[2] - zz
        rr = np.sqrt(dx * dx + dy * dy + dz * dz)
        pts = hp.detector_points(r=rr, theta=np.arctan2(np.hypot(dx, dy), dz),
                                 phi=np.arctan2(dy, dx) % (2 * np.pi),
                                 name=d.name)
    else:
        pts = hp.detector_points(x=xo, y=yo, z=zz, name=d.name)
    if optics_from:
        kw = {a: d.attrs.get(a) for a in
              ('medium_index', 'illum_wavelen', 'illum_polarization',
               'noise_sd') if d.attrs.get(a) is not None}
        if kw:
            pts = update_metadata(pts, **kw)
    return pts
