"""Fitting (C13)."""
import numpy as np

from sim.ops import op
from sim.ops.core import val


@op('strategy')
def strategy(ctx, kind, options=None):
    from holopy.inference import NmpfitStrategy, LeastSquaresScipyStrategy
    o = dict(options or {})
    if kind == 'nmpfit':
        return NmpfitStrategy(**o)
    return LeastSquaresScipyStrategy(**o)


@op('fit', lazy=('st',))
def fit(ctx, data, mo, st):
    """hp.fit; the FitResult object is stored, the reported payload leaves
    out the elapsed time (the only clock-derived field).  The strategy may
    keep scratch state ('reusable', not 'unchanged')."""
    import holopy as hp
    from sim import seams
    c0 = len(seams.CLOCK.served)
    try:
        res = hp.fit(val(ctx, data), val(ctx, mo), strategy=val(ctx, st))
    finally:
        ctx.extra['clock'] = list(seams.CLOCK.served[c0:])
    ctx.extra['__store__'] = res
    ctx.extra['time'] = res.time
    return {'intervals': [(i.name, i.guess, i.plus, i.minus)
                          for i in res.intervals],
            'names': list(res.parameters.keys()),
            'class': type(res).__name__}


def _consistency(res, data=None):
    out = {}

    def attempt(key, fn):
        try:
            out[key] = fn()
        except Exception as e:
            out[key] = {'exc': type(e).__name__, 'msg': str(e)[:200]}
    m = res.model
    attempt('names', lambda: list(res.parameters.keys()))
    attempt('model_names', lambda: list(m.parameters.keys()))
    attempt('parameters', lambda: dict(res.parameters))
    attempt('intervals', lambda: [(i.name, i.guess, i.plus, i.minus)
                                  for i in res.intervals])
    attempt('guess_parameters', lambda: dict(res.guess_parameters))
    attempt('time', lambda: res.time)
    attempt('hologram', lambda: res.hologram)
    attempt('guess_hologram', lambda: res.guess_hologram)
    attempt('max_lnprob', lambda: res.max_lnprob)
    attempt('scatterer', lambda: res.scatterer.parameters)
    attempt('guess_scatterer', lambda: res.guess_scatterer.parameters)
    attempt('forward_at_pars', lambda: res.forward(res._parameters))
    # the model's own forward calculation on the image that was fitted
    attempt('model_forward_grid',
            lambda: None if data is None
            else m.forward(dict(res.parameters), data))
    attempt('lnposterior_at_pars',
            lambda: m.lnposterior(dict(res.parameters), res.data))
    attempt('data', lambda: res.data)
    attempt('model_yaml', lambda: __import__('yaml').dump(
        m, default_flow_style=True))
    attempt('strategy_yaml', lambda: __import__('yaml').dump(
        res.strategy, default_flow_style=True))
    return out


@op('result_check', lazy=('res',))
def result_check(ctx, res, order_seed=0, data=None):
    """Query everything a result offers (lazy caches fill on the way)."""
    return _consistency(val(ctx, res),
                        val(ctx, data) if data is not None else None)


@op('result_query', lazy=('res',))
def result_query(ctx, res, what):
    r = val(ctx, res)
    if what == 'scatterer':
        return r.scatterer.parameters
    if what == 'guess_scatterer':
        return r.guess_scatterer.parameters
    return getattr(r, what)
