"""Constructors and scattering calculations."""
import numpy as np

from sim.ops import op, lit


def val(ctx, x):
    """Decode literal / handle, recursively."""
    if isinstance(x, dict):
        if 'ref' in x or ('h' in x and 'i' in x):
            return ctx.resolve(x)
        if 'c' in x and len(x) == 1:
            return complex(x['c'][0], x['c'][1])
        if 'tuple' in x and len(x) == 1:
            return tuple(val(ctx, i) for i in x['tuple'])
        if 'fn' in x or 'ctor' in x or 'npf' in x:
            from sim.ops.priors import build_expr
            return build_expr(ctx, x)
        if 'np' in x or 'arr' in x or 'f' in x:
            return lit(x)
        if 'dict' in x and len(x) == 1:
            return {k: val(ctx, v) for k, v in x['dict']}
        if 'xda' in x and len(x) == 1:
            # array-valued metadata: a labelled xarray.DataArray
            import xarray as xr
            d = x['xda']
            return xr.DataArray(np.array(d['values'], dtype=float),
                                dims=list(d['dims']),
                                coords={k: list(v)
                                        for k, v in d['coords'].items()})
        return {k: val(ctx, v) for k, v in x.items()}
    if isinstance(x, list):
        return [val(ctx, i) for i in x]
    return x


def optics_kwargs(ctx, optics):
    out = {}
    if not optics:
        return out
    for k in ('medium_index', 'illum_wavelen', 'illum_polarization',
              'noise_sd'):
        if k in optics and optics[k] is not None:
            out[k] = val(ctx, optics[k])
    return out


# ---------------------------------------------------------------- detectors

@op('detector_grid')
def detector_grid(ctx, shape, spacing, name=None, extra_dims=None,
                  optics=None, shift=None):
    import holopy as hp
    from holopy.core.metadata import update_metadata
    ed = None
    if extra_dims:
        ed = {k: list(v) for k, v in extra_dims.items()}
    det = hp.detector_grid(shape=val(ctx, shape), spacing=val(ctx, spacing),
                           name=name, extra_dims=ed)
    if shift:
        det = det.assign_coords(x=det.x + shift[0], y=det.y + shift[1])
    kw = optics_kwargs(ctx, optics)
    if kw:
        det = update_metadata(det, **kw)
    return det


@op('detector_points')
def detector_points(ctx, coords, name=None, optics=None):
    import holopy as hp
    from holopy.core.metadata import update_metadata
    kw = {k: (np.array(v) if isinstance(v, list) else v)
          for k, v in coords.items()}
    det = hp.detector_points(name=name, **kw)
    okw = optics_kwargs(ctx, optics)
    if okw:
        det = update_metadata(det, **okw)
    return det


@op('image')
def image(ctx, shape, spacing, seed, dtype='float64', optics=None, name=None,
          channels=None, offset=1.0, scale=0.1, z=0, origin=None):
    """A random image with metadata (data from a *local* RandomState).
    ``origin`` = (i0, j0): the image is a region of a larger frame and keeps
    the frame's pixel coordinates (i0 + i) * spacing."""
    from holopy.core.metadata import data_grid
    rs = np.random.RandomState(seed)
    shp = list(shape)
    extra = None
    if channels:
        extra = {'illumination': list(channels)}
        shp = shp + [len(channels)]
    arr = offset + scale * rs.standard_normal(shp)
    if np.dtype(dtype).kind in 'ui':
        arr = np.clip(np.round(128 + 40 * rs.standard_normal(shp)), 0,
                      min(np.iinfo(dtype).max, 60000))
    arr = arr.astype(dtype)
    kw = optics_kwargs(ctx, optics)
    im = data_grid(arr, spacing=val(ctx, spacing), name=name,
                   extra_dims=extra, z=z, **kw)
    if origin:
        sp = val(ctx, spacing)
        sp = list(sp) if isinstance(sp, (list, tuple, np.ndarray)) \
            else [sp, sp]
        # exactly the coordinates the frame's pixels have
        fx = np.arange(origin[0] + shape[0]) * sp[0]
        fy = np.arange(origin[1] + shape[1]) * sp[1]
        im = im.assign_coords(x=fx[origin[0]:], y=fy[origin[1]:])
    return im


# --------------------------------------------------------------- scatterers

@op('sphere')
def sphere(ctx, n, r, center=None):
    from holopy.scattering import Sphere
    return Sphere(n=val(ctx, n), r=val(ctx, r), center=val(ctx, center))


@op('layered_sphere')
def layered_sphere(ctx, n, t, center=None):
    from holopy.scattering import LayeredSphere
    return LayeredSphere(n=val(ctx, n), t=val(ctx, t),
                         center=val(ctx, center))


@op('spheres')
def spheres(ctx, members, warn=True):
    from holopy.scattering import Spheres
    from holopy.scattering import Sphere
    ms = []
    for m in members:
        if isinstance(m, dict) and 'op' in m and 'args' in m:
            ms.append(_inline_scatterer(ctx, m))
        elif isinstance(m, dict) and 'n' in m and 'ref' not in m:
            ms.append(Sphere(n=val(ctx, m['n']), r=val(ctx, m['r']),
                             center=val(ctx, m.get('center'))))
        else:
            ms.append(val(ctx, m))
    return Spheres(ms, warn=warn)


@op('spheroid')
def spheroid(ctx, n, r, rotation=(0, 0, 0), center=None):
    from holopy.scattering import Spheroid
    return Spheroid(n=val(ctx, n), r=val(ctx, r),
                    rotation=tuple(val(ctx, rotation)),
                    center=val(ctx, center))


@op('cylinder')
def cylinder(ctx, n, d, h, rotation=(0, 0, 0), center=None):
    from holopy.scattering import Cylinder
    return Cylinder(n=val(ctx, n), d=val(ctx, d), h=val(ctx, h),
                    rotation=tuple(val(ctx, rotation)),
                    center=val(ctx, center))


@op('ellipsoid')
def ellipsoid(ctx, n, r, rotation=(0, 0, 0), center=None):
    from holopy.scattering import Ellipsoid
    return Ellipsoid(n=val(ctx, n), r=val(ctx, r),
                     rotation=tuple(val(ctx, rotation)),
                     center=val(ctx, center))


# ------------------------------------------------------------------ theories

def make_theory(ctx, kind, options=None, inner=None):
    from holopy.scattering import theory as T
    from holopy.scattering.theory.lens import Lens
    o = dict(options or {})
    o = {k: val(ctx, v) for k, v in o.items()}
    if kind == 'Mie':
        return T.Mie(**o)
    if kind == 'Multisphere':
        return T.Multisphere(**o)
    if kind == 'Tmatrix':
        return T.Tmatrix()
    if kind == 'MieLens':
        return T.MieLens(**o)
    if kind == 'AberratedMieLens':
        return T.AberratedMieLens(**o)
    if kind == 'Lens':
        inner_t = make_theory(ctx, inner['kind'], inner.get('options'))
        return Lens(theory=inner_t, **o)
    raise ValueError(kind)


@op('theory')
def theory(ctx, kind, options=None, inner=None):
    return make_theory(ctx, kind, options, inner)


def theory_arg(ctx, th):
    from holopy.scattering import theory as T
    if th is None or th == 'auto':
        return 'auto'
    if isinstance(th, str) and th.startswith('class:'):
        return getattr(T, th[6:])
    return val(ctx, th)


# -------------------------------------------------------------- calculations

@op('calc')
def calc(ctx, kind, det, sc, th='auto', optics=None, scaling=None,
         _inline_sc=None, calcs=None):
    import holopy.scattering as hs
    detector = val(ctx, det) if det is not None else None
    scat = val(ctx, sc) if _inline_sc is None else \
        _inline_scatterer(ctx, _inline_sc)
    if isinstance(th, dict) and 'kind' in th:
        theo = make_theory(ctx, th['kind'], th.get('options'),
                           th.get('inner'))
    elif isinstance(th, dict) and 'of_model' in th:
        theo = val(ctx, th['of_model']).theory
    else:
        theo = theory_arg(ctx, th)
    kw = optics_kwargs(ctx, optics)
    kw.pop('noise_sd', None)
    if kind == 'holo':
        if scaling is not None:
            kw['scaling'] = val(ctx, scaling)
        return hs.calc_holo(detector, scat, theory=theo, **kw)
    if kind == 'field':
        return hs.calc_field(detector, scat, theory=theo, **kw)
    if kind == 'intensity':
        return hs.calc_intensity(detector, scat, theory=theo, **kw)
    if kind == 'scat_matrix':
        kw.pop('illum_polarization', None)
        return hs.calc_scat_matrix(detector, scat, theory=theo, **kw)
    if kind == 'cross_sections':
        return hs.calc_cross_sections(scat, theory=theo, **kw)
    raise ValueError(kind)


# ------------------------------------------------------------ control events

@op('rng_draws')
def rng_draws(ctx, k):
    """F6: foreign draws from the global NumPy RNG."""
    from sim import seams
    seams._REAL_RNG['uniform'](size=k)
    return None


@op('rng_reseed')
def rng_reseed(ctx, seed):
    from sim import seams
    seams._REAL_RNG['seed'](seed)
    return None


@op('clock_jump')
def clock_jump(ctx, at_call, delta, freeze=False):
    """F7: the at_call-th next time.time() call sees a jump of delta."""
    from sim import seams
    seams.CLOCK.jumps[seams.CLOCK.calls + at_call] = delta
    seams.CLOCK.freeze = bool(freeze)
    return None


@op('arm_solver_fault')
def arm_solver_fault(ctx, n, mode='noconv', count=1):
    """F8: the n-th next amncalc call (and count-1 following ones, i.e.
    also a retry) reports failure."""
    from sim import seams
    if seams.SOLVER is None:
        return None
    seams.SOLVER.fail_at = seams.SOLVER.calls + n
    seams.SOLVER.fail_count = count
    seams.SOLVER.mode = mode
    return None


@op('arm_interrupt')
def arm_interrupt(ctx, n):
    """F9: KeyboardInterrupt inside the n-th next forward evaluation."""
    from sim import seams
    seams.INTERRUPT.at = seams.INTERRUPT.calls + n
    return None


@op('disarm')
def disarm(ctx):
    from sim import seams
    fired = {'solver': seams.SOLVER.fired if seams.SOLVER else 0,
             'interrupt': seams.INTERRUPT.fired}
    if seams.SOLVER is not None:
        seams.SOLVER.fail_at = None
    seams.INTERRUPT.at = None
    return fired


@op('arm_io_fault')
def arm_io_fault(ctx, kind, index, err=28):
    """F2/F3/F4: the next file operation sees fault `kind` at its
    index-th tracked libc call (armed by that operation itself)."""
    ctx.pending_io_fault = (kind, index, err)
    return None


# ------------------------------------------------------------ compound ops

def _inline_scatterer(ctx, spec):
    if isinstance(spec, dict) and ('ref' in spec or 'h' in spec):
        return val(ctx, spec)
    from sim.ops import REGISTRY
    return REGISTRY[spec['op']](ctx, **spec['args'])


def _inline_theory(ctx, spec):
    if spec is None or isinstance(spec, str):
        return theory_arg(ctx, spec)
    if 'ref' in spec or 'h' in spec:
        return val(ctx, spec)
    return make_theory(ctx, spec['kind'], spec.get('options'),
                       spec.get('inner'))


def _inline_detector(ctx, spec):
    if isinstance(spec, dict) and ('ref' in spec or 'h' in spec):
        return val(ctx, spec)
    from sim.ops import REGISTRY
    return REGISTRY[spec['op']](ctx, **spec['args'])


def _one_calc(ctx, c):
    import holopy.scattering as hs
    det = _inline_detector(ctx, c['det'])
    sc = _inline_scatterer(ctx, c['sc'])
    th = _inline_theory(ctx, c.get('th', 'auto'))
    kw = optics_kwargs(ctx, c.get('optics'))
    kw.pop('noise_sd', None)
    kind = c['kind']
    if kind == 'holo':
        if c.get('scaling') is not None:
            kw['scaling'] = c['scaling']
        return hs.calc_holo(det, sc, theory=th, **kw)
    if kind == 'field':
        return hs.calc_field(det, sc, theory=th, **kw)
    if kind == 'intensity':
        return hs.calc_intensity(det, sc, theory=th, **kw)
    if kind == 'scat_matrix':
        kw.pop('illum_polarization', None)
        return hs.calc_scat_matrix(det, sc, theory=th, **kw)
    raise ValueError(kind)


@op('calc_multi')
def calc_multi(ctx, calcs):
    """Several self-contained calculations in one operation (atomic under
    minimisation); each outcome is reported separately."""
    out = []
    for c in calcs:
        try:
            out.append({'ok': _one_calc(ctx, c)})
        except Exception as e:
            out.append({'exc': type(e).__name__, 'msg': str(e)[:200]})
    return out


@op('env_option')
def env_option(ctx, kind, value):
    """The user changes a process-global option of a library HoloPy builds
    on (it stays until the interpreter ends)."""
    if kind == 'xr_keep_attrs':
        import xarray as xr
        xr.set_options(keep_attrs=value)
    elif kind == 'np_print':
        np.set_printoptions(**value)
    elif kind == 'np_seterr':
        np.seterr(**value)
    else:
        raise ValueError(kind)
    return None
