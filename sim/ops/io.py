"""File and stream I/O operations (C11 restart-through-text, C15, C16)."""
import io as _io
import os

import numpy as np

from sim.ops import op
from sim.ops.core import val, optics_kwargs


def _path(ctx, name):
    return os.path.join(ctx.root, name)


@op('hp_save')
def hp_save(ctx, obj, path):
    import holopy as hp
    o = val(ctx, obj)
    hp.save(_path(ctx, path), o)
    return {'saved': path}


@op('hp_load')
def hp_load(ctx, path):
    import holopy as hp
    return hp.load(_path(ctx, path))
