"""File and stream I/O operations (C11 restart-through-text, C15, C16)."""
import io as _io
import os

import numpy as np

from sim.ops import op
from sim.ops.core import val, optics_kwargs


def _path(ctx, name):
    return os.path.join(ctx.root, name)


def _io_begin(ctx):
    from sim import seams
    if not (seams.SHIM and seams.SHIM.present):
        return
    seams.SHIM.reset()
    pend = getattr(ctx, 'pending_io_fault', None)
    ctx.pending_io_fault = None
    if pend:
        seams.SHIM.arm(*pend)
        ctx.extra['armed'] = list(pend)


def _io_end(ctx):
    from sim import seams
    if not (seams.SHIM and seams.SHIM.present):
        return
    ctx.extra['calltypes'] = seams.SHIM.calltypes()
    ctx.extra['fired'] = seams.SHIM.fired()
    seams.SHIM.disarm()


@op('hp_save')
def hp_save(ctx, obj, path):
    import holopy as hp
    o = val(ctx, obj)
    hp.save(_path(ctx, path), o)
    return {'saved': path}


@op('hp_load')
def hp_load(ctx, path):
    import holopy as hp
    return hp.load(_path(ctx, path))


# ---------------------------------------------------------------------------
# object grammar (C15)
# ---------------------------------------------------------------------------

def _classes():
    import holopy.scattering as S
    import holopy.inference as I
    from holopy.core import prior as P
    from holopy.scattering.theory.lens import Lens
    from holopy.scattering.scatterer import csg
    d = {}
    for mod in (S, I, P, csg):
        for k in dir(mod):
            v = getattr(mod, k)
            if isinstance(v, type):
                d[k] = v
    d['Lens'] = Lens
    return d


def build_obj(ctx, spec):
    """spec: {'cls': name, 'kw': {...}} | {'ref'..} | expr | literal."""
    if isinstance(spec, dict):
        if 'shared' in spec:
            # one constant *object* the user defined once and used in
            # several places of the same description
            key = spec['shared']
            if key not in SHARED:
                SHARED[key] = build_obj(ctx, spec['value'])
            return SHARED[key]
        if 'cls' in spec:
            cls = _classes()[spec['cls']]
            kw = {k: build_obj(ctx, v) for k, v in spec.get('kw', {}).items()}
            obj = cls(**kw)
            for tie in spec.get('ties', []):
                names = list(obj._parameter_names)
                chosen = [n for n in names if n.endswith(tie['suffix'])]
                if len(chosen) > 1:
                    obj.add_tie(chosen, new_name=tie.get('new_name'))
            return obj
        if 'fn' in spec:
            from sim.ops.priors import BINOPS
            args = [build_obj(ctx, a) for a in spec['args']]
            fn = spec['fn']
            if fn in BINOPS:
                return BINOPS[fn](args[0], args[1])
            if fn == 'neg':
                return -args[0]
            return getattr(np, fn[6:])(*args)
        if 'tuple' in spec and len(spec) == 1:
            return tuple(build_obj(ctx, i) for i in spec['tuple'])
        if 'dict' in spec and len(spec) == 1:
            return {k: build_obj(ctx, v) for k, v in spec['dict']}
        if 'func' in spec and len(spec) == 1:
            import holopy.scattering as S
            return getattr(S, spec['func'])
        if 'da' in spec:
            import xarray as xr
            return xr.DataArray(
                [build_obj(ctx, v) for v in spec['da']['values']],
                dims=[spec['da']['dim']],
                coords={spec['da']['dim']: spec['da']['keys']})
        return val(ctx, spec)
    if isinstance(spec, list):
        return [build_obj(ctx, i) for i in spec]
    return spec


SHARED = {}


@op('build')
def build(ctx, spec):
    SHARED.clear()
    return build_obj(ctx, spec)


def describe(x, depth=0):
    """Class + value of every constructor argument, sequence containers
    normalised to lists (what the property promises to survive)."""
    import xarray as xr
    from holopy.core.holopy_object import HoloPyObject
    if depth > 30:
        return '<deep>'
    if isinstance(x, HoloPyObject):
        names = x.__init__.__code__.co_varnames[1:x.__init__.__code__.co_argcount]
        args = {}
        for v in names:
            args[v] = describe(_try(lambda: getattr(x, v, None)), depth + 1)
        if hasattr(x, '_parameter_names') and hasattr(x, '_maps'):
            args = {'__model__': {
                'names': list(x._parameter_names),
                'parameters': [describe(p, depth + 1)
                               for p in x._parameters],
                'constraints': describe(list(getattr(x, 'constraints', [])),
                                        depth + 1),
                'theory': describe(x.theory, depth + 1),
                'scatterer': describe(x.scatterer, depth + 1),
                'noise_sd': describe(_try(lambda: x.noise_sd), depth + 1),
                'medium_index': describe(_try(lambda: x.medium_index),
                                         depth + 1),
                'illum_wavelen': describe(_try(lambda: x.illum_wavelen),
                                          depth + 1),
                'illum_polarization': describe(
                    _try(lambda: x.illum_polarization), depth + 1),
                'alpha': describe(_try(lambda: x.alpha), depth + 1),
                'calc_func': describe(getattr(x, 'calc_func', None),
                                      depth + 1)}}
        # public attributes derived from arguments that are not themselves
        # kept (a lost argument shows up here)
        derived = {}
        for k, v in sorted(vars(x).items()):
            if not k.startswith('_') and k not in args and \
                    '__model__' not in args:
                derived[k] = describe(v, depth + 1)
        return {'cls': type(x).__name__, 'args': args, 'derived': derived}
    if isinstance(x, xr.DataArray):
        return {'da': describe(x.values, depth + 1),
                'dims': list(x.dims),
                'coords': {str(k): describe(x.coords[k].values, depth + 1)
                           for k in x.coords}}
    if isinstance(x, np.ndarray):
        return [describe(i, depth + 1) for i in x.tolist()] \
            if x.ndim else describe(x.item(), depth + 1)
    if isinstance(x, (list, tuple)):
        return [describe(i, depth + 1) for i in x]
    if isinstance(x, dict):
        return {'map': sorted(((str(k), describe(v, depth + 1))
                               for k, v in x.items()), key=lambda kv: kv[0])}
    if isinstance(x, np.generic):
        return describe(x.item(), depth + 1)
    if isinstance(x, bool) or x is None or isinstance(x, (int, str)):
        return x
    if isinstance(x, float):
        return x
    if isinstance(x, complex):
        return {'complex': [x.real, x.imag]}
    if callable(x):
        return {'callable': getattr(x, '__name__', type(x).__name__)}
    return {'other': type(x).__name__}


def _try(fn):
    try:
        return fn()
    except Exception as e:
        return '<%s>' % type(e).__name__


def snapshot(obj):
    import yaml
    out = {'describe': describe(obj)}
    try:
        out['yaml'] = yaml.dump(obj, default_flow_style=True)
    except Exception as e:
        out['yaml_exc'] = type(e).__name__ + ': ' + str(e)[:160]
    return out


@op('obj_snapshot')
def obj_snapshot(ctx, obj):
    return snapshot(val(ctx, obj))


@op('obj_equal')
def obj_equal(ctx, a, b):
    x, y = val(ctx, a), val(ctx, b)
    return {'eq': bool(x == y), 'eq_rev': bool(y == x)}


# ---------------------------------------------------------------------------
# streams (F11)
# ---------------------------------------------------------------------------

class ShortReadRaw(_io.RawIOBase):
    """Seekable (or not) raw stream returning at most k bytes per read."""

    def __init__(self, data, k, seekable=True):
        self._b = _io.BytesIO(data)
        self._k = k
        self._seekable = seekable

    def readable(self):
        return True

    def seekable(self):
        return self._seekable

    def readinto(self, b):
        chunk = self._b.read(min(len(b), self._k))
        b[:len(chunk)] = chunk
        return len(chunk)

    def seek(self, pos, whence=0):
        if not self._seekable:
            raise _io.UnsupportedOperation('seek')
        return self._b.seek(pos, whence)

    def tell(self):
        if not self._seekable:
            raise _io.UnsupportedOperation('tell')
        return self._b.tell()


class FailingWriter(_io.RawIOBase):
    """Raw sink under a BufferedWriter: raises OSError at the n-th write."""

    def __init__(self, n):
        self.n = n
        self.calls = 0
        self.buf = bytearray()

    def writable(self):
        return True

    def write(self, b):
        self.calls += 1
        if self.calls > self.n:
            raise OSError(28, 'No space left on device (simulated)')
        self.buf += bytes(b)
        return len(b)


@op('save_stream')
def save_stream(ctx, obj, kind='bytesio', n=1, bufsize=16):
    """hp.save to a caller-supplied binary stream; stores the bytes."""
    import holopy as hp
    o = val(ctx, obj)
    if kind == 'bytesio':
        s = _io.BytesIO()
        hp.save(s, o)
        data = s.getvalue()
    elif kind == 'file':
        p = _path(ctx, '_stream_%s.tmp' % ctx.opid)
        with open(p, 'wb') as f:
            hp.save(f, o)
        data = open(p, 'rb').read()
    elif kind == 'buffered_failing':
        raw = FailingWriter(n)
        s = _io.BufferedWriter(raw, buffer_size=bufsize)
        try:
            hp.save(s, o)
            s.flush()
        finally:
            ctx.extra['writes'] = raw.calls
        data = bytes(raw.buf)
    else:
        raise ValueError(kind)
    ctx.extra['__store__'] = data
    return {'nbytes': len(data), 'snapshot': snapshot(o)}


@op('load_stream')
def load_stream(ctx, blob, kind='bytesio', k=7, via='hp'):
    import holopy as hp
    from holopy.core.io import serialize
    data = val(ctx, blob)
    if kind == 'bytesio':
        s = _io.BytesIO(data)
    elif kind == 'shortread':
        s = ShortReadRaw(data, k)
    elif kind == 'buffered_shortread':
        s = _io.BufferedReader(ShortReadRaw(data, k))
    elif kind == 'offset':
        s = _io.BytesIO(b'junk!' + data)
        s.seek(5)
    elif kind == 'nonseekable':
        s = ShortReadRaw(data, k, seekable=False)
        via = 'serialize'
    else:
        raise ValueError(kind)
    obj = hp.load(s) if via == 'hp' else serialize.load(s)
    ctx.extra['__store__'] = obj
    return snapshot(obj)


@op('save_path')
def save_path(ctx, obj, path):
    import holopy as hp
    from sim import seams
    o = val(ctx, obj)
    snap = snapshot(o)
    ctx.extra['snapshot'] = snap
    _io_begin(ctx)
    try:
        hp.save(_path(ctx, path), o)
    finally:
        _io_end(ctx)
    return {'snapshot': snap}


@op('load_path')
def load_path(ctx, path):
    import holopy as hp
    from sim import seams
    _io_begin(ctx)
    try:
        obj = hp.load(_path(ctx, path))
    finally:
        _io_end(ctx)
    ctx.extra['__store__'] = obj
    return snapshot(obj)


# ---------------------------------------------------------------------------
# images (C16)
# ---------------------------------------------------------------------------

@op('img_save')
def img_save(ctx, img, path, via='hp', depth=8, scaling='auto'):
    import holopy as hp
    o = val(ctx, img)
    ctx.extra['saved'] = o
    _io_begin(ctx)
    try:
        if via == 'hp':
            hp.save(_path(ctx, path), o)
        else:
            sc = scaling if not isinstance(scaling, list) else tuple(scaling)
            hp.save_image(_path(ctx, path), o, scaling=sc, depth=depth)
    finally:
        _io_end(ctx)
    return {'saved': o}


@op('img_load')
def img_load(ctx, path):
    import holopy as hp
    _io_begin(ctx)
    try:
        return hp.load(_path(ctx, path))
    finally:
        _io_end(ctx)


@op('img_save_stream')
def img_save_stream(ctx, img):
    import holopy as hp
    o = val(ctx, img)
    s = _io.BytesIO()
    hp.save(s, o)
    ctx.extra['__store__'] = s.getvalue()
    return {'nbytes': len(s.getvalue()), 'saved': o}


@op('img_load_stream')
def img_load_stream(ctx, blob):
    import holopy as hp
    return hp.load(_io.BytesIO(val(ctx, blob)))


@op('load_image')
def load_image(ctx, path, spacing=None, channel=None, optics=None, name=None):
    import holopy as hp
    kw = optics_kwargs(ctx, optics)
    ch = channel if not isinstance(channel, list) else list(channel)
    return hp.load_image(_path(ctx, path), spacing=val(ctx, spacing),
                         channel=ch, name=name, **kw)


@op('load_average')
def load_average(ctx, paths=None, directory=None, refimg=None, spacing=None,
                 optics=None, channel=None, image_glob='*.tif'):
    from holopy.core.io.io import load_average as la
    kw = optics_kwargs(ctx, optics)
    if directory is not None:
        fp = _path(ctx, directory)
    else:
        fp = [_path(ctx, p) for p in paths]
    return la(fp, refimg=val(ctx, refimg) if refimg is not None else None,
              spacing=val(ctx, spacing), channel=channel,
              image_glob=image_glob, **kw)


@op('set_glob_seed')
def set_glob_seed(ctx, seed):
    """F5: directory listings come back in a seeded permutation."""
    from sim import seams
    seams.GLOB.perm_seed = seed
    return None


@op('mkdir')
def mkdir(ctx, path):
    os.makedirs(_path(ctx, path), exist_ok=True)
    return None


@op('update_metadata')
def update_metadata_op(ctx, img, optics):
    from holopy.core.metadata import update_metadata
    return update_metadata(val(ctx, img), **optics_kwargs(ctx, optics))


@op('raw_tiff')
def raw_tiff(ctx, path, shape, seed, mode='L', channels=None):
    """A plain raster image written with PIL (not by HoloPy)."""
    from PIL import Image
    rs = np.random.RandomState(seed)
    if channels:
        arr = rs.randint(0, 256, size=list(shape) + [channels]).astype('uint8')
        Image.fromarray(arr, 'RGB' if channels == 3 else 'RGBA').save(
            _path(ctx, path))
    elif mode == 'I;16':
        arr = rs.randint(0, 60000, size=shape).astype('uint16')
        Image.fromarray(arr).save(_path(ctx, path))
    else:
        arr = rs.randint(0, 256, size=shape).astype('uint8')
        Image.fromarray(arr).save(_path(ctx, path))
    return arr
