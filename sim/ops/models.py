"""Models (C11, C12): construction, probes, ties, posterior pieces."""
import numpy as np

from sim.ops import op
from sim.ops.core import val, theory_arg, optics_kwargs


class CountingCalc:
    """calc_func seam offered by ExactModel: counts forward evaluations.
    The count lives outside the object so that the model's fingerprint does
    not change when it is evaluated."""
    __slots__ = ()

    def __call__(self, detector, scatterer, **kw):
        from holopy.scattering import calc_holo
        COUNTS[id(self)] = COUNTS.get(id(self), 0) + 1
        return calc_holo(detector, scatterer, **kw)

    @property
    def calls(self):
        return COUNTS.get(id(self), 0)


class MemoCalc(CountingCalc):
    """A user's calc_func that memoises: the same arguments give back the
    *same* hologram object it keeps (the library must not write into it)."""
    __slots__ = ()

    def __call__(self, detector, scatterer, **kw):
        from holopy.scattering import calc_holo
        COUNTS[id(self)] = COUNTS.get(id(self), 0) + 1
        key = (id(self), id(detector), repr(scatterer),
               repr(sorted((k, repr(v)) for k, v in kw.items())))
        hit = MEMO.get(key)
        if hit is None or hit[0] is not detector:
            hit = MEMO[key] = (detector, calc_holo(detector, scatterer, **kw))
        return hit[1]


COUNTS = {}
COUNTERS = {}
MEMO = {}


@op('rigid_cluster')
def rigid_cluster(ctx, spheres, translation=(0, 0, 0), rotation=(0, 0, 0)):
    from holopy.scattering import RigidCluster
    return RigidCluster(val(ctx, spheres), translation=tuple(val(ctx, translation)),
                        rotation=tuple(val(ctx, rotation)))


@op('limit_overlaps')
def limit_overlaps(ctx, fraction=0.1):
    from holopy.inference import LimitOverlaps
    return LimitOverlaps(fraction)


@op('model')
def model(ctx, kind, sc, alpha=None, optics=None, th='auto',
          constraints=None, counting=False):
    from holopy.inference import AlphaModel, ExactModel
    scat = val(ctx, sc)
    kw = {}
    for k, v in (optics or {}).items():
        if v is not None:
            kw[k] = val(ctx, v)
    theo = theory_arg(ctx, th)
    if isinstance(th, dict) and 'kind' in th:
        from sim.ops.core import make_theory
        theo = make_theory(ctx, th['kind'], th.get('options'), th.get('inner'))
    cons = [val(ctx, c) for c in (constraints or [])]
    if kind == 'alpha':
        m = AlphaModel(scat, alpha=val(ctx, alpha) if alpha is not None
                       else 1, theory=theo, constraints=cons, **kw)
    else:
        if counting:
            cc = MemoCalc() if counting == 'memo' else CountingCalc()
            m = ExactModel(scat, calc_func=cc, theory=theo,
                           constraints=cons, **kw)
        else:
            m = ExactModel(scat, theory=theo, constraints=cons, **kw)
    return m


def _pool_id(ctx, obj):
    for oid, o in ctx.objs.items():
        if o is obj:
            return oid
    return None


def _prior_def(p):
    d = [type(p).__name__]
    for k in ('lower_bound', 'upper_bound', 'guess', 'mu', 'sd'):
        if hasattr(p, k):
            d.append(float(getattr(p, k)))
    return d


def probe_vector(names, seed):
    """Deterministic distinct test values, one per parameter."""
    return [round(0.61 + 0.173 * i + (seed % 97) * 0.0031, 6)
            for i in range(len(names))]


@op('model_probe')
def model_probe(ctx, mo, seed=0, values=None):
    m = val(ctx, mo)
    names = list(m._parameter_names)
    pars = m.parameters
    out = {'names': names,
           'defs': [_prior_def(pars[n]) for n in names],
           'pool_ids': [_pool_id(ctx, pars[n]) for n in names],
           'prior_names': [pars[n].name for n in names],
           'guesses': [pars[n].guess for n in names]}
    vec = probe_vector(names, seed) if values is None else list(values)
    out['vec'] = vec

    def attempt(key, fn):
        try:
            out[key] = fn()
        except Exception as e:
            out[key] = {'exc': type(e).__name__, 'msg': str(e)[:200]}
    attempt('sc_list', lambda: m.scatterer_from_parameters(list(vec)).parameters)
    attempt('sc_dict', lambda: m.scatterer_from_parameters(
        dict(zip(names, vec))).parameters)
    attempt('sc_class', lambda: type(m.scatterer_from_parameters(
        list(vec))).__name__)
    attempt('th', lambda: m.theory_from_parameters(list(vec)))
    attempt('th_dict', lambda: m.theory_from_parameters(dict(zip(names, vec))))
    attempt('initial_guess', lambda: m.initial_guess)
    attempt('guess_sc', lambda: m.initial_guess_scatterer.parameters)
    attempt('alpha', lambda: getattr(m, 'alpha', None) and None)
    return out


@op('model_optics')
def model_optics(ctx, mo, seed=0):
    """Public optics properties (with priors in place)."""
    m = val(ctx, mo)
    out = {}
    for k in ('medium_index', 'illum_wavelen', 'illum_polarization',
              'noise_sd'):
        try:
            out[k] = getattr(m, k)
        except Exception as e:
            out[k] = {'exc': type(e).__name__}
    return out


@op('add_tie', mutates=('mo',))
def add_tie(ctx, mo, idx, new_name=None, bogus=None, name_from=None,
            repeat=False):
    m = val(ctx, mo)
    names = list(m._parameter_names)
    if not names:
        return {'used': [], 'skipped': True}
    chosen = []
    for i in idx:
        nm = names[i % len(names)]
        if repeat or nm not in chosen:
            # repeat: the user lists a name twice
            chosen.append(nm)
    if bogus:
        chosen.append(bogus)
    if name_from is not None:
        # the user picks, as the new name, one that another parameter has
        others = [n for n in names if n not in chosen]
        if others:
            new_name = others[name_from % len(others)]
    ctx.extra['new_name'] = new_name
    ctx.extra['used'] = chosen
    ctx.extra['names_before'] = names
    m.add_tie(chosen, new_name=new_name)
    return {'used': chosen, 'names_after': list(m._parameter_names)}


@op('mutate_returned')
def mutate_returned(ctx, mo, what, seed=0):
    """Write into objects the model hands out; the model must not change
    (checked by the purity fingerprints: this op declares no mutation)."""
    m = val(ctx, mo)
    names = list(m._parameter_names)
    vec = probe_vector(names, seed)
    if what == 'parameters':
        d = m.parameters
        d.clear()
        return True
    if what == 'initial_guess':
        d = m.initial_guess
        for k in list(d):
            d[k] = -1
        return True
    if what in ('scatterer', 'guess_scatterer'):
        s = m.scatterer_from_parameters(list(vec)) if what == 'scatterer' \
            else m.initial_guess_scatterer
        _scramble(s)
        return True
    if what == 'sc_parameters':
        s = m.scatterer_from_parameters(list(vec))
        d = s.parameters
        for k, v in d.items():
            if isinstance(v, list):
                for i in range(len(v)):
                    v[i] = -7
            elif isinstance(v, np.ndarray):
                v[...] = -7
        return True
    if what == 'theory':
        t = m.theory_from_parameters(list(vec))
        for k, v in vars(t).items():
            if isinstance(v, dict):
                v['poison'] = 1
            elif isinstance(v, list):
                v.append(-7)
        return True
    raise ValueError(what)


def _scramble(s):
    from holopy.scattering import Scatterers
    if isinstance(s, Scatterers):
        for m in s.scatterers:
            _scramble(m)
        return
    for k, v in vars(s).items():
        if isinstance(v, np.ndarray) and v.dtype.kind in 'fiuc':
            v[...] = -7
        elif isinstance(v, list):
            for i in range(len(v)):
                v[i] = -7


@op('sc_roundtrip')
def sc_roundtrip(ctx, sc):
    """scatterer.from_parameters(scatterer.parameters): equal, no sharing."""
    s = val(ctx, sc)
    pars = s.parameters
    new = s.from_parameters(pars)
    out = {'class_same': type(new) is type(s), 'new_class': type(new).__name__,
           'eq': bool(new == s), 'new_parameters': new.parameters,
           'parameters': s.parameters}
    try:
        out['new_centers'] = [np.array(m.center, dtype=float)
                              for m in new.scatterers]
        out['orig_centers'] = [np.array(m.center, dtype=float)
                               for m in s.scatterers]
        out['new_r'] = [m.r for m in new.scatterers]
        out['orig_r'] = [m.r for m in s.scatterers]
        if hasattr(s, 'spheres'):
            out['base_centers'] = [np.array(m.center, dtype=float)
                                   for m in s.spheres.scatterers]
    except Exception:
        for k in ('new_centers', 'orig_centers', 'new_r', 'orig_r',
                  'base_centers'):
            out.pop(k, None)
    _scramble(new)          # must not reach s (purity fingerprint)
    for k, v in pars.items():
        if isinstance(v, list):
            for i in range(len(v)):
                v[i] = -7
        elif isinstance(v, np.ndarray):
            v[...] = -7
    return out


# ------------------------------------------------------------ posterior (C12)

def _parvec(m, spec):
    """spec: list of values, or dict name->value, or {'by_index': [...]}."""
    if isinstance(spec, dict) and 'as_dict' in spec:
        names = list(m._parameter_names)
        return dict(zip(names, spec['as_dict']))
    if isinstance(spec, dict):
        return dict(spec)
    return list(spec)


@op('lnprior')
def lnprior(ctx, mo, pars):
    m = val(ctx, mo)
    c0 = COUNTERS[id(m)].calls if id(m) in COUNTERS else None
    out = m.lnprior(_parvec(m, pars))
    if c0 is not None:
        ctx.extra['calc_calls'] = COUNTERS[id(m)].calls - c0
    return out


@op('lnlike')
def lnlike(ctx, mo, pars, data):
    m = val(ctx, mo)
    c0 = COUNTERS[id(m)].calls if id(m) in COUNTERS else None
    out = m.lnlike(_parvec(m, pars), val(ctx, data))
    if c0 is not None:
        ctx.extra['calc_calls'] = COUNTERS[id(m)].calls - c0
    return out


@op('lnposterior')
def lnposterior(ctx, mo, pars, data, pixels=None):
    m = val(ctx, mo)
    c0 = COUNTERS[id(m)].calls if id(m) in COUNTERS else None
    out = m.lnposterior(_parvec(m, pars), val(ctx, data), pixels)
    if c0 is not None:
        ctx.extra['calc_calls'] = COUNTERS[id(m)].calls - c0
    return out


@op('forward')
def forward(ctx, mo, pars, data):
    m = val(ctx, mo)
    c0 = COUNTERS[id(m)].calls if id(m) in COUNTERS else None
    out = m.forward(_parvec(m, pars), val(ctx, data))
    if c0 is not None:
        ctx.extra['calc_calls'] = COUNTERS[id(m)].calls - c0
    return out


@op('noisy_data')
def noisy_data(ctx, mo, pars, det, noise, seed, noise_sd_attr=None):
    """Data = the model's own forward hologram + seeded Gaussian noise (local
    RandomState), with an optional noise_sd attribute."""
    from holopy.core.metadata import update_metadata
    m = val(ctx, mo)
    d = val(ctx, det)
    h = m.forward(_parvec(m, pars), d)
    rs = np.random.RandomState(seed)
    h = h + noise * rs.standard_normal(h.shape)
    h.attrs = dict(m.forward(_parvec(m, pars), d).attrs)
    h.name = d.name
    if noise_sd_attr is not None:
        h = update_metadata(h, noise_sd=val(ctx, noise_sd_attr))
    return h


# ------------------------------------------------------------ distributed (C12)

def unrelated_work(kind):
    """Run in a worker before it serves posterior evaluations."""
    import holopy as hp
    from holopy.scattering import (Sphere, Spheres, Spheroid, calc_holo,
                                   Multisphere, Tmatrix)
    det = hp.detector_grid(6, 0.1)
    kw = dict(medium_index=1.33, illum_wavelen=0.66,
              illum_polarization=(1, 0))
    if kind == 'multisphere':
        s = Spheres([Sphere(n=1.59, r=0.4, center=(0.2, 0.2, 6)),
                     Sphere(n=1.45, r=0.3, center=(1.2, 0.4, 6.5))])
        return float(calc_holo(det, s, theory=Multisphere(), **kw).sum())
    if kind == 'tmatrix':
        s = Spheroid(n=1.5, r=(0.3, 0.5), rotation=(0, 0.4, 0.8),
                     center=(0.3, 0.3, 7))
        return float(calc_holo(det, s, theory=Tmatrix(), **kw).sum())
    if kind == 'rng':
        return float(np.random.uniform(size=17).sum())
    if kind == 'arm_solver':
        from sim import seams
        if seams.SOLVER is not None:
            seams.SOLVER.fail_at = seams.SOLVER.calls
            seams.SOLVER.mode = 'noconv'
        return 0.0
    s = Sphere(n=1.59, r=0.5, center=(0.3, 0.3, 8))
    return float(calc_holo(det, s, **kw).sum())


@op('pool_create')
def pool_create(ctx, nworkers, seed, dup_rate=0.0, kill_rate=0.0,
                reorder=True):
    from sim.pool import SimPool
    return SimPool(nworkers, seed, dup_rate, kill_rate, reorder)


@op('pool_prework', mutates=('pool',))
def pool_prework(ctx, pool, wid, kind):
    p = val(ctx, pool)
    p.submit_to(wid, unrelated_work, kind)
    return None


@op('pool_map', mutates=('pool',))
def pool_map(ctx, pool, mo, data, vectors, pixels=None):
    """What sample_emcee does: choose_pool(pool).map(LnpostWrapper.evaluate)"""
    from holopy.core.utils import choose_pool, LnpostWrapper
    sp = val(ctx, pool)
    m = val(ctx, mo)
    d = val(ctx, data)
    names = list(m._parameter_names)
    vecs = [[v[n] for n in names] for v in vectors]
    obj = LnpostWrapper(m, d, pixels)
    p = choose_pool(sp)
    n0 = len(sp.replies)
    l0 = len(sp.log)
    d0 = sp.deaths
    try:
        res = p.map(obj.evaluate, vecs)
        err = None
    except Exception as e:
        res, err = None, type(e).__name__ + ': ' + str(e)[:200]
    local = [obj.evaluate(v) for v in vecs]
    return {'res': res, 'err': err, 'local': local,
            'replies': [list(r) for r in sp.replies[n0:]],
            'log': [list(x) for x in sp.log[l0:]],
            'deaths': sp.deaths - d0}


@op('pool_close', mutates=('pool',))
def pool_close(ctx, pool):
    val(ctx, pool).close()
    return None


@op('named_eval')
def named_eval(ctx, mo, what, values, data=None, pixels=None, keyed='dict'):
    """lnprior / lnlike / lnposterior / forward with name-keyed values."""
    m = val(ctx, mo)
    names = list(m._parameter_names)
    pars = dict(values) if keyed == 'dict' else [values[n] for n in names]
    cc = getattr(m, 'calc_func', None)
    c0 = cc.calls if isinstance(cc, CountingCalc) else None
    d = val(ctx, data) if data is not None else None
    if what == 'lnprior':
        out = m.lnprior(pars)
    elif what == 'lnlike':
        out = m.lnlike(pars, d)
    elif what == 'lnposterior':
        out = m.lnposterior(pars, d, pixels)
    elif what == 'forward':
        out = m.forward(pars, d)
    else:
        raise ValueError(what)
    if c0 is not None:
        ctx.extra['calc_calls'] = cc.calls - c0
    ctx.extra['names'] = names
    return out


@op('rigid_model_probe')
def rigid_model_probe(ctx, mo, spec, seed=0):
    """A model built on a RigidCluster: the scatterer built from parameter
    values against the public route (Spheres of the substituted members,
    .rotated(rotation).translated(translation))."""
    from holopy.scattering import Sphere, Spheres
    m = val(ctx, mo)
    names = list(m._parameter_names)
    vec = probe_vector(names, seed)
    env = dict(zip(names, vec))
    genv = {n: m.parameters[n].guess for n in names}
    out = {'names': names, 'vec': vec}

    def sub(site, e):
        if isinstance(site, dict) and 'p' in site:
            return e[site['p']]
        if isinstance(site, list):
            return [sub(x, e) for x in site]
        return site

    def reference(e):
        sph = Spheres([Sphere(n=sub(mm['n'], e), r=sub(mm['r'], e),
                              center=sub(mm['center'], e))
                       for mm in spec['members']], warn=False)
        return sph.rotated(tuple(sub(spec['rotation'], e))).translated(
            tuple(sub(spec['translation'], e)))

    def describe(sc):
        return {'class': type(sc).__name__,
                'centers': [np.array(x.center, dtype=float)
                            for x in sc.scatterers],
                'r': [float(x.r) for x in sc.scatterers],
                'n': [complex(x.n) for x in sc.scatterers]}

    def attempt(key, fn):
        try:
            out[key] = fn()
        except Exception as ex_:
            out[key] = {'exc': type(ex_).__name__, 'msg': str(ex_)[:200]}
    attempt('built_list', lambda: describe(
        m.scatterer_from_parameters(list(vec))))
    attempt('built_dict', lambda: describe(m.scatterer_from_parameters(env)))
    attempt('built_guess', lambda: describe(m.initial_guess_scatterer))
    attempt('ref', lambda: describe(reference(env)))
    attempt('ref_guess', lambda: describe(reference(genv)))
    return out
