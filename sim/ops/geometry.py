"""Geometry queries on scatterers (C20) and sphere-collection mutation."""
import numpy as np

from sim.ops import op
from sim.ops.core import val, _inline_scatterer


@op('csg')
def csg(ctx, kind, s1, s2):
    from holopy.scattering.scatterer import csg as C
    a = _inline_scatterer(ctx, s1)
    b = _inline_scatterer(ctx, s2)
    return getattr(C, kind)(a, b)


@op('translated')
def translated(ctx, sc, vec, as_three=False):
    s = _inline_scatterer(ctx, sc)
    if as_three:
        return s.translated(vec[0], vec[1], vec[2])
    return s.translated(np.array(vec))


@op('rotated')
def rotated(ctx, sc, angles):
    s = _inline_scatterer(ctx, sc)
    return s.rotated(angles[0], angles[1], angles[2])


@op('geom_query')
def geom_query(ctx, sc, points, background=1.0):
    s = _inline_scatterer(ctx, sc)
    pts = np.array(points, dtype=float)
    out = {'contains': np.asarray(s.contains(pts)),
           'in_domain': np.asarray(s.in_domain(pts))}
    try:
        out['index_at'] = np.asarray(s.index_at(pts, background=background))
    except Exception as e:
        out['index_at_exc'] = type(e).__name__
    try:
        out['bounds'] = [[float(a), float(b)] for a, b in s.bounds]
    except Exception as e:
        out['bounds_exc'] = type(e).__name__
    return out


@op('voxel_volume')
def voxel_volume(ctx, sc, spacing):
    s = _inline_scatterer(ctx, sc)
    dom = s.voxelate_domains(spacing)
    return {'inside': int((np.asarray(dom) > 0).sum()),
            'shape': list(np.asarray(dom).shape), 'spacing': spacing}


@op('spheres_add', mutates=('sc',))
def spheres_add(ctx, sc, member):
    s = val(ctx, sc)
    m = _inline_scatterer(ctx, member)
    s.add(m)
    return None


@op('overlap_query')
def overlap_query(ctx, sc):
    s = _inline_scatterer(ctx, sc)
    return {'overlaps': [list(map(int, p)) for p in s.overlaps],
            'largest_overlap': float(s.largest_overlap())}


@op('emit_warning')
def emit_warning(ctx, kind='user', text='w'):
    """Some other warning-emitting operation in the same session."""
    import warnings
    from holopy.core.errors import PerformanceWarning
    cat = {'user': UserWarning, 'perf': PerformanceWarning,
           'dep': DeprecationWarning, 'runtime': RuntimeWarning}[kind]
    warnings.warn(text, cat)
    return None


@op('scoped_ignore')
def scoped_ignore(ctx):
    """What library code (nmpfit, hp.load) does: a scoped filter change."""
    import warnings
    with warnings.catch_warnings():
        warnings.simplefilter('ignore')
        warnings.warn('hidden', UserWarning)
    return None


@op('library_io_call')
def library_io_call(ctx, kind, seed=0):
    """Other library calls of the same session that manipulate warning
    filters internally (hp.load of a TIFF uses a scoped 'ignore'), including
    ones that FAIL part-way: good | noname (NoMetadata) | truncated (OSError)
    | yaml (plain object round trip)."""
    import os
    import holopy as hp
    import yaml
    from PIL import Image
    from PIL.TiffImagePlugin import ImageFileDirectory_v2 as ifd2
    from holopy.core.metadata import data_grid
    rs = np.random.RandomState(seed)
    path = os.path.join(ctx.root, 'lib_%s_%d.tif' % (kind, ctx.opid))
    if kind == 'yaml':
        from holopy.scattering import Sphere
        p2 = path[:-4] + '.yaml'
        hp.save(p2, Sphere(n=1.5, r=0.5, center=(1, 2, 3)))
        return type(hp.load(p2)).__name__
    if kind == 'good':
        img = data_grid(rs.uniform(0.5, 2, (5, 6)), spacing=0.1,
                        medium_index=1.33, illum_wavelen=0.66,
                        illum_polarization=(1, 0))
        hp.save(path, img)
        return list(hp.load(path).shape)
    arr = rs.randint(0, 255, size=(5, 6)).astype('uint8')
    info = ifd2()
    info[270] = yaml.dump({'spacing': [0.1, 0.1]}, default_flow_style=True)
    Image.fromarray(arr).save(path, tiffinfo=info)
    if kind == 'truncated':
        data = open(path, 'rb').read()
        with open(path, 'wb') as f:
            f.write(data[:len(data) // 2])
    return list(hp.load(path).shape)
