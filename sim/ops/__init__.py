"""Operation registry.  Operations are the public HoloPy API only; each takes
the node context plus JSON-able arguments (literals or handles)."""
import importlib

REGISTRY = {}
SPECS = {}
_loaded = False


def op(name, mutates=(), **spec):
    def deco(fn):
        REGISTRY[name] = fn
        s = dict(spec)
        s['mutates'] = tuple(mutates)
        SPECS[name] = s
        return fn
    return deco


MODULES = ['core', 'select', 'geometry', 'process', 'priors', 'models',
           'fitting', 'io']


def load_all():
    global _loaded
    if _loaded:
        return
    for m in MODULES:
        try:
            importlib.import_module('sim.ops.' + m)
        except ModuleNotFoundError as e:
            if 'sim.ops.' + m not in str(e):
                raise
    _loaded = True


def lit(x):
    """Decode a JSON literal: {"c":[re,im]} -> complex, {"inf":1} etc."""
    if isinstance(x, dict):
        if 'c' in x and len(x) == 1:
            return complex(x['c'][0], x['c'][1])
        if 'f' in x and len(x) == 1:        # float given as hex / special
            return float.fromhex(x['f']) if isinstance(x['f'], str) \
                else float(x['f'])
        if 'tuple' in x and len(x) == 1:
            return tuple(lit(i) for i in x['tuple'])
        if 'np' in x:                        # numpy scalar {"np":dtype,"v":..}
            import numpy as np
            return np.dtype(x['np']).type(lit(x['v']))
        if 'arr' in x:                       # numpy array
            import numpy as np
            return np.array(lit(x['arr']), dtype=x.get('dtype'))
        return {k: lit(v) for k, v in x.items()}
    if isinstance(x, list):
        return [lit(i) for i in x]
    return x
