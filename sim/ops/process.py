"""Accumulator and image-processing tools (C18)."""
import numpy as np

from sim.ops import op
from sim.ops.core import val, optics_kwargs


@op('accumulator')
def accumulator(ctx):
    from holopy.core.io.io import Accumulator
    return Accumulator()


@op('frame')
def frame(ctx, seed, shape, dtype='float64', offset=0.0, scale=1.0,
          constant=False, as_da=False, spacing=0.1):
    rs = np.random.RandomState(seed)
    if constant:
        arr = np.full(shape, offset + scale)
    else:
        arr = offset + scale * rs.standard_normal(shape)
    if np.dtype(dtype).kind in 'ui':
        arr = np.round(arr)
        info = np.iinfo(dtype)
        arr = np.clip(arr, info.min, info.max)
    arr = arr.astype(dtype)
    if as_da:
        from holopy.core.metadata import data_grid
        return data_grid(arr, spacing=spacing, medium_index=1.33,
                         illum_wavelen=0.66, illum_polarization=(1, 0))
    return arr


@op('acc_push', mutates=('acc',))
def acc_push(ctx, acc, frm):
    a = val(ctx, acc)
    a.push(val(ctx, frm))
    return None


@op('acc_push_bad', mutates=('acc',))
def acc_push_bad(ctx, acc, what='str'):
    """A push that cannot succeed (the producer handed over something that
    is not a frame): it raises, and must count for nothing."""
    a = val(ctx, acc)
    if what in ('complex', 'colour'):
        # frame-like, and good enough for the first steps of the update
        m = a.mean()
        if not hasattr(m, 'shape') or np.ndim(m) == 0:
            # nothing accumulated yet: anything numeric would be a valid
            # first frame
            a.push('not a frame')
            return None
        if what == 'complex':
            bad = m * (1 + 1j)
        else:
            import xarray as xr
            if isinstance(m, xr.DataArray):
                bad = xr.concat([m, m * 2], dim='illumination')
            else:
                bad = np.stack([np.asarray(m), np.asarray(m) * 2], axis=-1) \
                    if hasattr(m, 'shape') else 'not a frame'
        a.push(bad)
        return None
    a.push({'str': 'not a frame', 'none': None, 'obj': object()}[what])
    return None


@op('acc_read')
def acc_read(ctx, acc, what='both'):
    a = val(ctx, acc)
    out = {}
    if what in ('mean', 'both'):
        out['mean'] = a.mean()
    if what in ('std', 'both'):
        out['std'] = a.std()
    return out


@op('pos_image')
def pos_image(ctx, shape, spacing, seed, optics=None, name=None, lo=0.5,
              hi=2.0, zeros=None, plane=None, scale=1.0, noise_sd=None,
              channels=None, dtype=None):
    """Positive random image; optional dead pixels and an added plane.
    ``dtype``: camera-like integer counts (or float32) instead of float64."""
    from holopy.core.metadata import data_grid
    rs = np.random.RandomState(seed)
    shp = list(shape)
    extra = None
    if channels:
        extra = {'illumination': list(channels)}
        shp = shp + [len(channels)]
    arr = rs.uniform(lo, hi, shp) * scale
    if plane is not None:
        a, bx, by = plane
        ii, jj = np.meshgrid(np.arange(shape[0]), np.arange(shape[1]),
                             indexing='ij')
        pl = a + bx * ii + by * jj
        arr = arr + (pl if not channels else pl[..., None])
    if dtype is not None and np.dtype(dtype).kind in 'iu':
        top = min(np.iinfo(dtype).max, 4095)
        arr = rs.randint(1, top + 1, shp).astype(dtype)
    elif dtype is not None:
        arr = arr.astype(dtype)
    for z in zeros or []:
        arr[z[0], z[1]] = 0
    kw = optics_kwargs(ctx, optics)
    if noise_sd is not None:
        kw['noise_sd'] = noise_sd
    return data_grid(arr, spacing=val(ctx, spacing), name=name,
                     extra_dims=extra, **kw)


@op('normalize')
def normalize(ctx, det):
    from holopy.core.process import normalize as f
    return f(val(ctx, det))


@op('detrend')
def detrend(ctx, det):
    from holopy.core.process import detrend as f
    return f(val(ctx, det))


@op('zero_filter')
def zero_filter(ctx, det):
    from holopy.core.process import zero_filter as f
    return f(val(ctx, det))


@op('bg_correct')
def bg_correct(ctx, raw, bg, df=None):
    from holopy.core.process import bg_correct as f
    return f(val(ctx, raw), val(ctx, bg),
             val(ctx, df) if df is not None else None)


@op('center_find')
def center_find(ctx, det, centers=1, threshold=0.5, blursize=3.0):
    from holopy.core.process import center_find as f
    return np.asarray(f(val(ctx, det), centers=centers, threshold=threshold,
                        blursize=blursize))


@op('mutate_image', mutates=('det',))
def mutate_image(ctx, det, seed, lo=1.0, hi=3.0):
    """The user refreshes an image they hold IN PLACE (e.g. a new background
    frame written into the same array)."""
    d = val(ctx, det)
    rs = np.random.RandomState(seed)
    d.values[...] = rs.uniform(lo, hi, d.shape)
    return d.copy()


@op('forget')
def forget(ctx, obj):
    """The user drops a reference (del): the object may be freed and its
    memory - and id() - reused by a later object."""
    import gc
    if not (isinstance(obj, dict) and 'ref' in obj):
        return None
    oid = obj['ref']
    kind = ctx.kind_of.pop(oid, None)
    ctx.objs.pop(oid, None)
    ctx.hist.pop(oid, None)
    if kind in ctx.kinds and oid in ctx.kinds[kind]:
        ctx.kinds[kind].remove(oid)
    gc.collect()
    return None
