"""Priors (C14): construction, arithmetic, sampling through the RNG seam."""
import operator

import numpy as np

from sim.ops import op, lit
from sim.ops.core import val


def _f(x):
    """literal float incl. infinities given as strings"""
    if isinstance(x, str):
        return float(x)
    return lit(x)


@op('uniform')
def uniform(ctx, lo, hi, guess=None, name=None):
    from holopy.core import prior
    return prior.Uniform(_f(lo), _f(hi), guess=_f(guess), name=name)


@op('gaussian')
def gaussian(ctx, mu, sd, name=None):
    from holopy.core import prior
    return prior.Gaussian(_f(mu), _f(sd), name=name)


@op('bounded_gaussian')
def bounded_gaussian(ctx, mu, sd, lo='-inf', hi='inf', name=None):
    from holopy.core import prior
    return prior.BoundedGaussian(_f(mu), _f(sd), _f(lo), _f(hi), name=name)


@op('complex_prior')
def complex_prior(ctx, real, imag, name=None):
    from holopy.core import prior
    return prior.ComplexPrior(build_expr(ctx, real), build_expr(ctx, imag),
                              name=name)


BINOPS = {'add': operator.add, 'sub': operator.sub, 'mul': operator.mul,
          'div': operator.truediv, 'pow': operator.pow}


def build_expr(ctx, e):
    """Expression tree -> python value (prior / number) using the *public*
    operator overloads of the priors."""
    if isinstance(e, dict) and 'fn' in e:
        args = [build_expr(ctx, a) for a in e['args']]
        fn = e['fn']
        if fn in BINOPS:
            return BINOPS[fn](args[0], args[1])
        if fn == 'neg':
            return -args[0]
        if fn.startswith('ufunc:'):
            return getattr(np, fn[6:])(*args)
        raise ValueError(fn)
    if isinstance(e, dict) and 'npf' in e:
        return np.float64(e['npf'])
    if isinstance(e, dict) and ('ref' in e or 'h' in e):
        return val(ctx, e)
    if isinstance(e, dict) and 'ctor' in e:
        from sim.ops import REGISTRY
        return REGISTRY[e['ctor']](ctx, **e['args'])
    return _f(e)


@op('derive')
def derive(ctx, expr):
    return build_expr(ctx, expr)


def _script_fn(step):
    """Adversarial-but-legal variates: chosen slots are replaced."""
    slots = step.get('slots', [0])
    mode = step['mode']

    def fn(fresh, params):
        flat = np.atleast_1d(fresh).astype(float).reshape(-1)
        if slots == 'all':
            flat[:] = step['value']
        else:
            for s in slots:
                if s < flat.size:
                    flat[s] = step['value']
        if np.ndim(fresh) == 0:
            return flat[0]
        return flat.reshape(np.shape(fresh))
    return fn


@op('prior_sample')
def prior_sample(ctx, pr, size=None, script=None, seed=0):
    """sample() with holopy.core.prior.random replaced by SimRandom."""
    from holopy.core import prior as P
    from sim import seams
    p = build_expr(ctx, pr)
    sr = seams.SIMRANDOM
    sr.reset(seed)
    steps = []
    for s_ in (script or []):
        steps.extend([s_] * int(s_.get('repeat', 1)))
    sr.script = [dict(kind=s_.get('kind', 'normal'), fn=_script_fn(s_))
                 for s_ in steps]
    sr.MAX_CALLS = len(steps) + 400
    real = P.random
    P.random = sr
    sz = tuple(size) if isinstance(size, list) else size
    try:
        out = p.sample(sz) if sz is not None or True else p.sample()
    finally:
        P.random = real
        ctx.extra['calls'] = [
            {'kind': c['kind'], 'params': [float(x) for x in c['params']],
             'size': c['size'], 'out': c['out']} for c in sr.calls]
        ctx.extra['script_left'] = len(sr.script)
    return out


@op('prior_eval')
def prior_eval(ctx, pr, xs):
    p = build_expr(ctx, pr)
    probs, lnprobs = [], []
    for x in xs:
        x = _f(x)
        probs.append(float(p.prob(x)))
        lnprobs.append(float(p.lnprob(x)))
    out = {'prob': probs, 'lnprob': lnprobs}
    return out


@op('prior_info')
def prior_info(ctx, pr, xs=None):
    p = build_expr(ctx, pr)
    out = {'guess': p.guess, 'class': type(p).__name__}
    if hasattr(p, 'scale_factor'):
        out['scale_factor'] = p.scale_factor
        out['roundtrip'] = [p.unscale(p.scale(_f(x))) for x in (xs or [])]
        out['scaled'] = [p.scale(_f(x)) for x in (xs or [])]
    return out


@op('prior_identity')
def prior_identity(ctx, pr, kind):
    p = build_expr(ctx, pr)
    if kind == 'add0':
        return (p + 0) is p
    if kind == 'radd0':
        return (0 + p) is p
    if kind == 'sub0':
        return (p - 0) is p
    if kind == 'mul1':
        return (p * 1) is p
    if kind == 'rmul1':
        return (1 * p) is p
    if kind == 'div1':
        return (p / 1) is p
    if kind == 'add0.0':
        return (p + 0.0) is p
    if kind == 'mul1.0':
        return (p * 1.0) is p
    # nearly, but not exactly, the identity: a new prior must come back
    if kind == 'add_tiny':
        return (p + 5e-9) is p
    if kind == 'radd_tiny':
        return (-3e-9 + p) is p
    if kind == 'mul_near1':
        return (p * 1.000004) is p
    if kind == 'div_near1':
        return (p / 0.9999999) is p
    if kind == 'np_radd0':
        return (np.float64(0) + p) is p
    if kind == 'np_rmul1':
        return (np.float64(1) * p) is p
    if kind == 'np_mul1':
        return (p * np.float64(1)) is p
    if kind == 'np_int_rmul1':
        return (np.int64(1) * p) is p
    # the following must raise
    if kind == 'np_rmul0':
        return repr(np.float64(0) * p)
    if kind == 'np_mul0':
        return repr(p * np.float64(0))
    if kind == 'mul0':
        return repr(p * 0)
    if kind == 'rmul0':
        return repr(0 * p)
    if kind == 'add_str':
        return repr(p + 'a')
    if kind == 'mul_str':
        return repr(p * 'a')
    if kind == 'mul_list':
        return repr(p * [1, 2])
    if kind == 'add_none':
        return repr(p + None)
    if kind == 'mul_complex':
        return repr(p * 1j)
    if kind == 'add_dict':
        return repr(p + {})
    raise ValueError(kind)


@op('generate_guess')
def generate_guess(ctx, prs, nguess=1, scaling=1, seed=None):
    from holopy.core.prior import generate_guess as gg
    ps = [build_expr(ctx, p) for p in prs]
    return gg(ps, nguess=nguess, scaling=scaling, seed=seed)


@op('prior_updated')
def prior_updated(ctx, pr, guess, plus, minus, extra=0):
    from holopy.core.prior import updated
    from holopy.inference.result import UncertainValue
    p = build_expr(ctx, pr)
    new = updated(p, UncertainValue(guess, plus, minus), extra)
    return {'class': type(new).__name__, 'mu': new.mu, 'sd': new.sd,
            'lower': getattr(new, 'lower_bound', None),
            'upper': getattr(new, 'upper_bound', None), 'name': new.name}
