"""C18 - image-processing identities; running accumulator = batch statistics.

[SIM]   the accumulator is a streaming state machine: 2-4 producer tasks hold
        queues of frames, a seeded scheduler decides who pushes next, reads
        are interleaved at arbitrary points, the same multiset of frames is
        replayed into a second accumulator under another schedule; after
        every read the state must equal the batch mean / population std of
        the frames pushed so far; reads and pushes never modify frames.
[SAMPLED] normalise, background correction, crops, dead-pixel filter,
        detrending, centre finder, metadata kept; on shared image objects.
"""
import numpy as np

from sim import oracles as O
from sim.gen import Builder, rfloat
from sim.runner import violation

EPS = np.finfo(float).eps
OPT = {'medium_index': 1.33, 'illum_wavelen': 0.66,
       'illum_polarization': [1, 0]}


def vals(p):
    if O.is_da(p):
        return np.asarray(p['values'])
    if isinstance(p, dict) and '__npscalar__' in p:
        return np.asarray(p['v'])
    return np.asarray(p)


class C18:
    ID = 'C18'
    TITLE = 'Image-processing identities; accumulator = batch statistics'
    TIERS = {'quick': {'budget_s': 60.0}}

    def generate(self, rng, tier='quick'):
        b = Builder(rng)
        faults = {}
        # ------------------------------------------------ accumulator part
        shape = rng.choice([[3, 4], [1, 5], [6, 6], [2, 2, 3], [8]])
        dtype = rng.choice(['float64', 'float64', 'float32', 'uint8',
                            'int32', 'uint16'])
        spread = rng.choice([1.0, 1e-3, 5.0, rfloat(rng, 0.01, 10)])
        offset = rng.choice([0.0, 1.0, 100.0, 1e3]) * spread
        if np.dtype(dtype).kind in 'ui':
            spread = rng.choice([3.0, 20.0])
            offset = rng.choice([30.0, 100.0])
        as_da = (len(shape) == 2 and rng.random() < 0.3)
        nprod = rng.randint(2, 4)
        queues = []
        for p in range(nprod):
            q = []
            for _ in range(rng.randint(1, 5)):
                const = rng.random() < 0.1
                q.append(b.emit('frame', {
                    'seed': rng.randrange(2 ** 31), 'shape': shape,
                    'dtype': dtype, 'offset': offset, 'scale': spread,
                    'constant': const, 'as_da': as_da}, store='frm'))
            queues.append(q)
        accs = [b.emit('accumulator', {}, store='acc',
                       tags={'k': 'acc'})]
        two = rng.random() < 0.7
        if two:
            accs.append(b.emit('accumulator', {}, store='acc'))
        if rng.random() < 0.3:
            b.emit('acc_read', {'acc': accs[0], 'what': 'both'},
                   tags={'k': 'read-empty', 'accread': True})
        # one schedule per accumulator; their pushes interleave in the session
        cursors = [[0] * nprod for _ in accs]
        pending = [sum(len(q) for q in queues) for _ in accs]
        while any(pending):
            ai = rng.choice([i for i, n in enumerate(pending) if n])
            live = [p for p in range(nprod)
                    if cursors[ai][p] < len(queues[p])]
            p = rng.choice(live)
            frm = queues[p][cursors[ai][p]]
            cursors[ai][p] += 1
            pending[ai] -= 1
            if rng.random() < 0.08:
                # one producer hands over garbage: the push raises, the
                # caller carries on
                b.emit('acc_push_bad', {'acc': accs[ai],
                                        'what': rng.choice([
                                            'str', 'none', 'obj', 'complex',
                                            'colour'])},
                       tags={'k': 'push-bad', 'bad': True})
            b.emit('acc_push', {'acc': accs[ai], 'frm': frm},
                   tags={'k': 'push', 'producer': p})
            if rng.random() < 0.35:
                b.emit('acc_read', {'acc': accs[ai],
                                    'what': rng.choice(['mean', 'std',
                                                        'both'])},
                       tags={'k': 'read', 'accread': True})
        for a in accs:
            b.emit('acc_read', {'acc': a, 'what': 'both'},
                   tags={'k': 'read-final', 'accread': True, 'final': True})
        # ------------------------------------------------ image tools part
        n = rng.randint(3, 12)
        m = rng.randint(3, 12)
        spacing = rng.choice([0.1, [0.1, 0.25], rfloat(rng, 0.05, 1.0, 3)])
        seed = rng.randrange(2 ** 31)
        name = rng.choice([None, 'img', 'raw'])
        nsd = rng.choice([None, 0.1])
        base = {'shape': [n, m], 'spacing': spacing, 'seed': seed,
                'optics': OPT, 'name': name, 'noise_sd': nsd}
        img = b.emit('pos_image', base, store='det', tags={'role': 'base'})
        for _ in range(rng.randint(4, 14)):
            c = rng.random()
            if rng.random() < 0.06:
                # the user flips a process-global xarray / numpy option at
                # some point of the session
                b.emit('env_option', rng.choice([
                    {'kind': 'xr_keep_attrs', 'value': False},
                    {'kind': 'xr_keep_attrs', 'value': True},
                    {'kind': 'xr_keep_attrs', 'value': 'default'},
                    {'kind': 'np_seterr', 'value': {'all': 'ignore'}},
                    {'kind': 'np_seterr', 'value': {'all': 'warn'}}]),
                    tags={'k': 'env'})
            if c < 0.2:
                b.emit('normalize', {'det': img}, store='norm',
                       tags={'k': 'normalize', 'of': 'base'})
                if rng.random() < 0.5 and b.count('norm'):
                    h, _ = b.pick('norm')
                    b.emit('normalize', {'det': h},
                           tags={'k': 'normalize2'})
                if rng.random() < 0.5:
                    sc = rng.choice([2.0, 0.125, rfloat(rng, 1e-3, 1e3, 4)])
                    simg = b.emit('pos_image', dict(base, scale=sc),
                                  store='scaled')
                    b.emit('normalize', {'det': simg},
                           tags={'k': 'normalize-scaled'})
            elif c < 0.4:
                bg = b.emit('pos_image', dict(
                    base, seed=rng.randrange(2 ** 31), lo=1.0, hi=3.0,
                    noise_sd=rng.choice([None, 0.07])), store='bg')
                df = None
                if rng.random() < 0.6:
                    df = b.emit('pos_image', dict(
                        base, seed=rng.randrange(2 ** 31), lo=0.01, hi=0.4),
                        store='df')
                b.emit('bg_correct', {'raw': img, 'bg': bg, 'df': df},
                       tags={'k': 'bg_correct'})
                if rng.random() < 0.5:
                    b.emit('bg_correct', {'raw': img, 'bg': img, 'df': None},
                           tags={'k': 'bg_self'})
                c2 = rng.random()
                if c2 < 0.35:
                    # the user refreshes the background (or dark field) in
                    # place and corrects again with the same objects
                    tgt = bg if (df is None or rng.random() < 0.6) else df
                    b.emit('mutate_image', {
                        'det': tgt, 'seed': rng.randrange(2 ** 31),
                        'lo': 1.0 if tgt is bg else 0.01,
                        'hi': 3.0 if tgt is bg else 0.4},
                        tags={'k': 'refresh-in-place'})
                    b.emit('bg_correct', {'raw': img, 'bg': bg, 'df': df},
                           tags={'k': 'bg_correct'})
                elif c2 < 0.6:
                    # the user drops the background and loads a new one
                    b.emit('forget', {'obj': bg}, tags={'k': 'forget'})
                    b.live['bg'].pop()
                    bg2 = b.emit('pos_image', dict(
                        base, seed=rng.randrange(2 ** 31), lo=1.0, hi=3.0),
                        store='bg')
                    b.emit('bg_correct', {'raw': img, 'bg': bg2, 'df': df},
                           tags={'k': 'bg_correct'})
            elif c < 0.6:
                # dead pixels
                zs = []
                kind = rng.choice(['interior', 'edge', 'corner', 'several'])
                if n < 3 or m < 3:
                    kind = 'corner'
                if kind == 'interior':
                    zs = [[rng.randint(1, n - 2), rng.randint(1, m - 2)]]
                elif kind == 'edge':
                    if rng.random() < 0.5:
                        zs = [[rng.choice([0, n - 1]), rng.randint(1, m - 2)]]
                    else:
                        zs = [[rng.randint(1, n - 2), rng.choice([0, m - 1])]]
                elif kind == 'corner':
                    zs = [[rng.choice([0, n - 1]), rng.choice([0, m - 1])]]
                else:
                    # several isolated zeros (no two adjacent, none on corner)
                    cand = [[i, j] for i in range(n) for j in range(m)
                            if not (i in (0, n - 1) and j in (0, m - 1))]
                    rng.shuffle(cand)
                    for z in cand:
                        if all(abs(z[0] - y[0]) + abs(z[1] - y[1]) > 2
                               for y in zs):
                            zs.append(z)
                        if len(zs) >= 3:
                            break
                zargs = dict(base, zeros=zs)
                if rng.random() < 0.4:
                    # raw camera frames are integer counts
                    zargs['dtype'] = rng.choice(['uint8', 'uint16', 'int32',
                                                 'float32'])
                zimg = b.emit('pos_image', zargs, store='zimg')
                b.emit('zero_filter', {'det': zimg},
                       tags={'k': 'zero_filter', 'zeros': zs,
                             'zkind': kind})
            elif c < 0.75:
                plane = [rfloat(rng, -5, 5, 3), rfloat(rng, -2, 2, 4),
                         rfloat(rng, -2, 2, 4)]
                pimg = b.emit('pos_image', dict(base, plane=plane),
                              store='pimg')
                b.emit('detrend', {'det': pimg},
                       tags={'k': 'detrend-plane', 'plane': plane})
                b.emit('detrend', {'det': img}, tags={'k': 'detrend-base'})
            else:
                cen = [rng.randint(0, n), rng.randint(0, m)]
                if rng.random() < 0.3:
                    cen = [cen[0] + rfloat(rng, -0.45, 0.45, 2),
                           cen[1] + rfloat(rng, -0.45, 0.45, 2)]
                if rng.random() < 0.6:
                    shp = rng.randint(1, max(n, m))
                else:
                    shp = [rng.randint(1, n), rng.randint(1, m)]
                b.emit('subimage', {'det': img, 'center': cen, 'shape': shp},
                       tags={'k': 'crop'})
        # ------------------------------------------------ centre finder
        if tier != 'quick' or rng.random() < 0.04:
            npx = rng.randint(60, 160 if tier != 'quick' else 90)
            sp = 0.1
            cx = rfloat(rng, 0.2 * npx * sp, 0.8 * npx * sp, 3)
            cy = rfloat(rng, 0.2 * npx * sp, 0.8 * npx * sp, 3)
            det = b.emit('detector_grid', {'shape': npx, 'spacing': sp,
                                           'optics': OPT}, store='cdet')
            sc = b.emit('sphere', {'n': rfloat(rng, 1.45, 1.65, 3),
                                   'r': rfloat(rng, 0.3, 0.8, 3),
                                   'center': [cx, cy, rfloat(rng, 8, 20, 2)]},
                        store='csc')
            holo = b.emit('calc', {'kind': 'holo', 'det': det, 'sc': sc,
                                   'th': 'auto', 'optics': None,
                                   'scaling': 1.0}, store='cholo')
            b.emit('center_find', {'det': holo},
                   tags={'k': 'center_find', 'true': [cx / sp, cy / sp]})
        return {'config': {'faults': faults, 'node': {}}, 'events': b.events}

    # -------------------------------------------------------------- oracle
    def oracle(self, ex):
        evs = ex.events_by_id
        pushed = {}            # acc ref -> [frame arrays]
        finals = {}
        for ev in ex.run['events']:
            rec = ex.records.get(ev.get('id'))
            if not rec or rec['outcome'] in ('skip', 'died'):
                continue
            op = ev['op']
            tags = ev.get('tags', {})
            if op == 'acc_push' and rec['outcome'] == 'ok':
                xc = ex.stats.setdefault('extra', {})
                xc['scheduled_pushes'] = xc.get('scheduled_pushes', 0) + 1
                if tags.get('producer') != ex.__dict__.get('_lastprod'):
                    xc['producer_switches'] = \
                        xc.get('producer_switches', 0) + 1
                ex.__dict__['_lastprod'] = tags.get('producer')
                a = rec['rargs']['acc']['ref']
                f = ex.records.get(rec['rargs']['frm']['ref'])
                if f and f['outcome'] == 'ok':
                    pushed.setdefault(a, []).append(
                        (rec['rargs']['frm']['ref'], vals(f['payload'])))
            elif op == 'acc_read' and rec['outcome'] == 'ok':
                xc = ex.stats.setdefault('extra', {})
                xc['interleaved_reads'] = xc.get('interleaved_reads', 0) + 1
                a = rec['rargs']['acc']['ref']
                frames = [f for _, f in pushed.get(a, [])]
                self._check_read(ex, ev, rec, frames)
                if tags.get('final'):
                    finals[a] = (rec, sorted(i for i, _ in pushed.get(a, [])))
            elif op in ('acc_push', 'acc_read') and rec['outcome'] == 'exc':
                ex.add(violation('C18.accumulator', ev['id'],
                                 '%s raised %s: %s' % (op, rec['exc'],
                                                       rec['msg']),
                                 sig='C18.accumulator:exc:' + op))
            elif op in ('normalize', 'bg_correct', 'zero_filter', 'detrend',
                        'subimage', 'center_find'):
                self._check_tool(ex, ev, rec)
        # two schedules of the same multiset agree
        fl = list(finals.values())
        for i in range(len(fl)):
            for j in range(i + 1, len(fl)):
                if fl[i][1] != fl[j][1] or not fl[i][1]:
                    continue
                ex.stats['oracle_sim'] += 1
                pa = dict(fl[i][0]['payload']['__dict__'])
                pb = dict(fl[j][0]['payload']['__dict__'])
                frames = [f for _, f in pushed[list(finals)[i]]]
                tol = self._tol(frames)
                for k in ('mean', 'std'):
                    if k in pa and k in pb and pa[k] is not None:
                        err = O.maxerr(vals(pa[k]), vals(pb[k]))
                        if err > 2 * tol:
                            ex.add(violation(
                                'C18.accumulator', fl[j][0]['id'],
                                'two push orders of the same frames give %s '
                                'differing by %.3g (tolerance %.3g)' % (
                                    k, err, 2 * tol),
                                sig='C18.accumulator:order:' + k))

    @staticmethod
    def _eps(frames):
        dt = frames[0].dtype
        return float(np.finfo(dt).eps) if dt.kind == 'f' else EPS

    @classmethod
    def _tol(cls, frames):
        n = len(frames)
        mx = max(float(np.max(np.abs(f.astype(float)))) for f in frames)
        return 64 * n * cls._eps(frames) * max(mx, 1e-300)

    def _check_read(self, ex, ev, rec, frames):
        ex.stats['oracle_sim'] += 1
        p = dict(rec['payload']['__dict__'])
        if not frames:
            if 'mean' in p and not (isinstance(p['mean'], float) and
                                    p['mean'] == 0.0):
                ex.add(violation('C18.accumulator', ev['id'],
                                 'empty accumulator mean is %r, not 0.0'
                                 % (p['mean'],),
                                 sig='C18.accumulator:empty'))
            if 'std' in p and p['std'] is not None:
                ex.add(violation('C18.accumulator', ev['id'],
                                 'empty accumulator std is %r, not None'
                                 % (p['std'],),
                                 sig='C18.accumulator:empty'))
            return
        stack = np.stack([f.astype(np.float64) for f in frames])
        tol = self._tol(frames)
        mx = ex.stats.setdefault('maxerr', {})
        if 'mean' in p:
            got = vals(p['mean']).astype(np.float64)
            want = stack.mean(axis=0)
            if got.shape != want.shape:
                ex.add(violation('C18.accumulator', ev['id'],
                                 'mean has shape %s, frames %s' % (
                                     got.shape, want.shape),
                                 sig='C18.accumulator:shape'))
                return
            err = O.maxerr(got, want)
            mx['acc_mean/tol'] = max(mx.get('acc_mean/tol', 0.0), err / tol)
            if not (err <= tol):
                ex.add(violation(
                    'C18.accumulator', ev['id'],
                    'mean after %d pushes differs from the batch mean by '
                    '%.3g (tolerance %.3g)' % (len(frames), err, tol),
                    sig='C18.accumulator:mean'))
                return
        if 'std' in p:
            if p['std'] is None:
                ex.add(violation('C18.accumulator', ev['id'],
                                 'std is None after %d pushes' % len(frames),
                                 sig='C18.accumulator:std'))
                return
            got = vals(p['std']).astype(np.float64)
            want = stack.std(axis=0)
            err = O.maxerr(got, want)
            # std: error of the variance ~ n*eps*max^2, so of the std
            # ~ that / (2 std); bounded below by sqrt(n*eps)*max for std~0
            m = float(np.max(np.abs(stack)))
            smin = float(np.min(want))
            eps = self._eps(frames)
            tol_s = max(tol, min(np.sqrt(64 * len(frames) * eps) * m,
                                 64 * len(frames) * eps * m * m /
                                 max(smin, 1e-300)))
            mx['acc_std/tol'] = max(mx.get('acc_std/tol', 0.0),
                                    err / tol_s)
            if not (err <= tol_s):
                ex.add(violation(
                    'C18.accumulator', ev['id'],
                    'std after %d pushes differs from the batch std by %.3g '
                    '(tolerance %.3g)' % (len(frames), err, tol_s),
                    sig='C18.accumulator:std'))

    # ------------------------------------------------------------ tools
    def _src(self, ex, rec, arg='det'):
        """Current content of the object an argument refers to: what its
        constructor returned, or what the last in-place refresh before this
        operation left in it."""
        h = rec['rargs'].get(arg)
        if not isinstance(h, dict) or 'ref' not in h:
            return None
        r = ex.records.get(h['ref'])
        cur = None
        if r and r['outcome'] == 'ok' and O.is_da(r['payload']):
            cur = r['payload']
        for e in ex.run['events']:
            if e.get('id') == rec['id']:
                break
            if e.get('op') == 'mutate_image':
                r2 = ex.records.get(e['id'])
                if r2 and r2['outcome'] == 'ok' and \
                        r2['rargs']['det'].get('ref') == h['ref']:
                    cur = r2['payload']
        return cur

    def _meta_kept(self, ex, ev, src, out, what, allow_noise_from=None):
        from sim import canon
        sa, oa = O.attrs_of(src), O.attrs_of(out)
        for k in ('medium_index', 'illum_wavelen', 'illum_polarization',
                  'noise_sd'):
            want = sa.get(k)
            if k == 'noise_sd' and want is None and \
                    allow_noise_from is not None:
                want = O.attrs_of(allow_noise_from).get(k)
            if canon.digest(want) != canon.digest(oa.get(k)):
                ex.add(violation(
                    'C18.metadata', ev['id'],
                    '%s does not keep metadata %s (%r -> %r)' % (
                        what, k, want, oa.get(k)),
                    sig='C18.metadata:' + what + ':' + k))
                return False
        if out.get('name') != src.get('name'):
            ex.add(violation('C18.metadata', ev['id'],
                             '%s does not keep the image name' % what,
                             sig='C18.metadata:' + what + ':name'))
            return False
        return True

    def _check_tool(self, ex, ev, rec):
        op = ev['op']
        tags = ev.get('tags', {})
        k = tags.get('k')
        ex.stats['oracle_sampled'] += 1
        if op == 'zero_filter' and tags.get('zkind') == 'corner':
            if rec['outcome'] != 'exc' or rec['exc'] != 'BadImage':
                ex.add(violation('C18.zero_filter', ev['id'],
                                 'dead corner pixel was not refused '
                                 '(%s %s)' % (rec['outcome'], rec.get('exc')),
                                 sig='C18.zero_filter:corner'))
            return
        if rec['outcome'] == 'exc':
            if op == 'subimage':
                self._crop_exc(ex, ev, rec)
                return
            ex.add(violation('C18.' + op, ev['id'],
                             '%s raised %s: %s' % (op, rec['exc'],
                                                   rec['msg'][:100]),
                             sig='C18.%s:exc:%s' % (op, rec['exc'])))
            return
        out = rec['payload']
        if op == 'center_find':
            got = vals(out).reshape(-1)[:2]
            true = np.array(tags['true'])
            if np.max(np.abs(got - true)) > 1.0:
                ex.add(violation('C18.center_find', ev['id'],
                                 'centre %r, true %r (pixels)' % (
                                     got.tolist(), true.tolist()),
                                 sig='C18.center_find'))
            return
        src = self._src(ex, rec, 'raw' if op == 'bg_correct' else 'det')
        if src is None or not O.is_da(out):
            return
        sv, ov = vals(src).astype(float), vals(out).astype(float)
        if op == 'normalize':
            if not self._meta_kept(ex, ev, src, out, 'normalize'):
                return
            nel = sv.size
            mx = ex.stats.setdefault('maxerr', {})
            mx['normalize_mean/tol'] = max(
                mx.get('normalize_mean/tol', 0.0),
                abs(ov.mean() - 1.0) / (16 * EPS * max(1, np.log2(nel))))
            if abs(ov.mean() - 1.0) > 16 * EPS * max(1, np.log2(nel)):
                ex.add(violation('C18.normalize', ev['id'],
                                 'mean of normalised image is 1%+.3g'
                                 % (ov.mean() - 1.0),
                                 sig='C18.normalize:mean'))
                return
            ref = sv / sv.mean()
            if O.maxerr(ov, ref) > 64 * EPS * np.max(np.abs(ref)):
                ex.add(violation('C18.normalize', ev['id'],
                                 'normalised values differ from x/mean(x) by '
                                 '%.3g' % O.maxerr(ov, ref),
                                 sig='C18.normalize:value'))
            return
        if op == 'bg_correct':
            bg = self._src(ex, rec, 'bg')
            df = self._src(ex, rec, 'df')
            if bg is None:
                return
            if not self._meta_kept(ex, ev, src, out, 'bg_correct',
                                   allow_noise_from=bg):
                return
            bv = vals(bg).astype(float)
            dv = vals(df).astype(float) if df is not None else 0.0
            if k == 'bg_self':
                if not np.all(ov == 1.0):
                    ex.add(violation('C18.bg_correct', ev['id'],
                                     'image divided by itself is not exactly '
                                     '1 (max dev %.3g)' % np.max(
                                         np.abs(ov - 1)),
                                     sig='C18.bg_correct:self'))
                return
            ref = (sv - dv) / (bv - dv)
            mx = ex.stats.setdefault('maxerr', {})
            if ov.shape == ref.shape:
                mx['bg_correct/tol'] = max(
                    mx.get('bg_correct/tol', 0.0),
                    O.maxerr(ov, ref) / (8 * EPS * np.max(np.abs(ref))))
            if ov.shape != ref.shape or \
                    O.maxerr(ov, ref) > 8 * EPS * np.max(np.abs(ref)):
                ex.add(violation('C18.bg_correct', ev['id'],
                                 'result differs from (raw-dark)/(bg-dark) by '
                                 '%.3g' % O.maxerr(ov, ref),
                                 sig='C18.bg_correct:value'))
            return
        if op == 'zero_filter':
            if not self._meta_kept(ex, ev, src, out, 'zero_filter'):
                return
            zs = [tuple(z) for z in tags.get('zeros', [])]
            a = sv.reshape(sv.shape[-2:]) if sv.ndim == 3 else sv
            o = ov.reshape(ov.shape[-2:]) if ov.ndim == 3 else ov
            if sv.ndim == 3:
                # dims are (z, x, y)
                a = sv[0]
                o = ov[0] if ov.shape == sv.shape else np.squeeze(ov)
            n, m = a.shape
            # the mean is formed in the precision of the frames
            eps = max([EPS] + [np.finfo(x.dtype).eps
                               for x in (vals(src), vals(out))
                               if x.dtype.kind == 'f'])
            a = a.astype(float)
            for i in range(n):
                for j in range(m):
                    if (i, j) in zs:
                        if 0 < i < n - 1 and 0 < j < m - 1:
                            want = (a[i - 1, j] + a[i + 1, j] +
                                    a[i, j - 1] + a[i, j + 1]) / 4
                        elif i in (0, n - 1):
                            want = (a[i, j - 1] + a[i, j + 1]) / 2
                        else:
                            want = (a[i - 1, j] + a[i + 1, j]) / 2
                        if abs(o[i, j] - want) > 16 * eps * abs(want):
                            ex.add(violation(
                                'C18.zero_filter', ev['id'],
                                'dead pixel (%d,%d) replaced by %r, '
                                'neighbour mean is %r' % (i, j, o[i, j],
                                                          want),
                                sig='C18.zero_filter:value'))
                            return
                    elif o[i, j] != a[i, j]:
                        ex.add(violation(
                            'C18.zero_filter', ev['id'],
                            'positive pixel (%d,%d) changed %r -> %r' % (
                                i, j, a[i, j], o[i, j]),
                            sig='C18.zero_filter:untouched'))
                        return
            return
        if op == 'detrend':
            if not self._meta_kept(ex, ev, src, out, 'detrend'):
                return
            if k == 'detrend-plane':
                # find the detrend of the plane-free base image in this run
                for e2 in ex.run['events']:
                    if e2.get('tags', {}).get('k') == 'detrend-base':
                        r2 = ex.records.get(e2['id'])
                        if r2 and r2['outcome'] == 'ok':
                            bv = vals(r2['payload']).astype(float)
                            pl = tags['plane']
                            scale = (abs(pl[0]) + abs(pl[1]) * sv.shape[-2] +
                                     abs(pl[2]) * sv.shape[-1] +
                                     np.max(np.abs(sv)))
                            mx = ex.stats.setdefault('maxerr', {})
                            if bv.shape == ov.shape:
                                mx['detrend/tol'] = max(
                                    mx.get('detrend/tol', 0.0),
                                    O.maxerr(ov, bv) / (256 * EPS * scale *
                                                        max(sv.shape)))
                            if bv.shape == ov.shape and O.maxerr(ov, bv) > \
                                    256 * EPS * scale * max(sv.shape):
                                ex.add(violation(
                                    'C18.detrend', ev['id'],
                                    'an added plane %r is not removed: '
                                    'residual %.3g' % (pl, O.maxerr(ov, bv)),
                                    sig='C18.detrend:plane'))
                            return
            return
        if op == 'subimage':
            self._check_crop(ex, ev, rec, src, out)

    def _expected_crop(self, ev, src):
        """Index ranges of the documented crop, or None if it does not fit."""
        cen = ev['args']['center']
        shp = ev['args']['shape']
        if not isinstance(shp, list):
            shp = [shp, shp]
        nx = len(src['coords']['x']['values'])
        ny = len(src['coords']['y']['values'])
        c = [int(np.round(v)) for v in cen]
        rng_ = []
        for ci, s, n in zip(c, shp, (nx, ny)):
            lo = int(np.round(ci - s / 2))
            hi = int(np.round(ci + s / 2))
            if lo < 0 or hi > n or hi <= lo:
                return None
            rng_.append((lo, hi))
        return rng_

    def _crop_exc(self, ex, ev, rec):
        src = self._src(ex, rec)
        if src is None:
            return
        if self._expected_crop(ev, src) is not None:
            ex.add(violation(
                'C18.crop', ev['id'],
                'subimage(center=%r, shape=%r) of a %dx%d image raised %s'
                % (ev['args']['center'], ev['args']['shape'],
                   len(src['coords']['x']['values']),
                   len(src['coords']['y']['values']), rec['exc']),
                sig='C18.crop:exc:' + rec['exc'] + (
                    ':tuple' if isinstance(ev['args']['shape'], list)
                    else ':int')))

    def _check_crop(self, ex, ev, rec, src, out):
        if not self._meta_kept(ex, ev, src, out, 'subimage'):
            return
        smap, _ = O.point_map(src)
        cmap, _ = O.point_map(out)
        for pt, v in cmap.items():
            if pt not in smap or np.asarray(v).tobytes() != \
                    np.asarray(smap[pt]).tobytes():
                ex.add(violation('C18.crop', ev['id'],
                                 'cropped pixel at %r does not keep value and '
                                 'physical coordinates' % (pt,),
                                 sig='C18.crop:value'))
                return
        exp = self._expected_crop(ev, src)
        if exp is not None and cmap:
            # a crop that fits is centred where it was asked to be (whatever
            # the rounding convention for odd sizes: within half a pixel)
            cen = [int(np.round(v)) for v in ev['args']['center']]
            for ax, name in ((0, 'x'), (1, 'y')):
                sc_ = [float(v) for v in src['coords'][name]['values']]
                got = sorted({pt[ax] for pt in cmap})
                a = sc_.index(got[0])
                b_ = sc_.index(got[-1]) + 1
                if abs((a + b_) / 2.0 - cen[ax]) > 0.5:
                    ex.add(violation(
                        'C18.crop', ev['id'],
                        'crop of %s-pixels [%d, %d) is not centred at the '
                        'requested pixel %d' % (name, a, b_, cen[ax]),
                        sig='C18.crop:centre'))
                    return
        if exp is not None:
            want = (exp[0][1] - exp[0][0]) * (exp[1][1] - exp[1][0])
            if len(cmap) != want:
                ex.add(violation('C18.crop', ev['id'],
                                 'crop has %d pixels, expected %d' % (
                                     len(cmap), want),
                                 sig='C18.crop:size'))


PROP = C18()
