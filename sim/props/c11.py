"""C11 - model parameters map to exactly the places their priors were used.

[SIM]   a Model is a state machine (add_tie rewrites maps / parameters /
        names; ties compose): seeded *programs* of constructor, query, tie,
        mutate-what-was-returned and restart-through-text steps are checked
        step by step against a reference model (partition of sites by prior
        identity with union-find, one expression tree per site).
"""
import math

import numpy as np

from sim import oracles as O
from sim.gen import Builder, rfloat
from sim.runner import violation
from sim.props.c14 import apply_fn, num

OPT = {'medium_index': 1.33, 'illum_wavelen': 0.66,
       'illum_polarization': [1, 0]}
COLLIDE = ['n', 'r', 'a', 'a', 'alpha', 'center.0', 'x', None, None, None,
           'r_0', 'n_1', 'lens_angle', '0:r']


def draw_pool_prior(rng, proto=None):
    """(op, args); with proto: an equal definition but distinct identity."""
    if proto is not None:
        op, args = proto
        a = dict(args)
        a['name'] = rng.choice(COLLIDE)
        return op, a
    k = rng.choice(['uniform', 'uniform', 'gaussian', 'bounded_gaussian'])
    name = rng.choice(COLLIDE)
    if k == 'uniform':
        lo = rfloat(rng, 0.2, 2, 3)
        a = {'lo': lo, 'hi': round(lo + rfloat(rng, 0.1, 2, 3), 3),
             'name': name}
        if rng.random() < 0.3:
            a['guess'] = round(lo + 0.05, 3)
        return 'uniform', a
    if k == 'gaussian':
        return 'gaussian', {'mu': rfloat(rng, 0.5, 3, 3),
                            'sd': rfloat(rng, 0.05, 0.5, 3), 'name': name}
    mu = rfloat(rng, 0.5, 3, 3)
    return 'bounded_gaussian', {'mu': mu, 'sd': rfloat(rng, 0.05, 0.5, 3),
                                'lo': round(mu - 0.4, 3),
                                'hi': round(mu + 0.6, 3), 'name': name}


class C11:
    ID = 'C11'
    TITLE = 'Model parameters map to exactly the places their priors were used'
    TIERS = {'quick': {'budget_s': 60.0}}

    def site_value(self, rng, pool, fixed, allow_complex=False,
                   positive=False):
        """fixed number | pool handle | expression | complex prior."""
        c = rng.random()
        if c < 0.35 or not pool:
            return fixed
        h = rng.choice(pool)
        if c < 0.7:
            return h
        if c < 0.9:
            fn = rng.choice(['add', 'mul', 'sub', 'div', 'neg', 'ufunc:exp',
                             'ufunc:sqrt', 'ufunc:add'])
            if positive:
                fn = rng.choice(['add', 'mul', 'ufunc:exp', 'ufunc:sqrt',
                                 'ufunc:add'])
            if fn in ('neg', 'ufunc:exp', 'ufunc:sqrt'):
                return {'fn': fn, 'args': [h]}
            other = rng.choice([2, 0.5, 3.0, rng.choice(pool)])
            if rng.random() < 0.2:
                # constants that are nearly, but not exactly, the identity
                # (a 5 nm shell on a length in metres, a 1 ppm correction)
                other = rng.choice([5e-9, -3e-9, 1e-8]) \
                    if fn in ('add', 'sub', 'ufunc:add') \
                    else rng.choice([1.000001, 0.9999999])
            if rng.random() < 0.3:
                return {'fn': fn, 'args': [other if not isinstance(
                    other, dict) else 2, h]}
            return {'fn': fn, 'args': [h, other]}
        if allow_complex:
            return {'ctor': 'complex_prior', 'args': {
                'real': rng.choice([h, 1.5]),
                'imag': rng.choice([rng.choice(pool), 0.01])}}
        return h

    def generate_exhaustive(self, rng, tier):
        """Bounded-exhaustive ties: m <= 5 equal priors at the radii of m
        spheres; every subset of size >= 2 tied in one call, and every
        subset of size >= 3 also composed from pairwise ties in a seeded
        order, each on a fresh model."""
        import itertools
        b = Builder(rng)
        m = rng.choice([3, 4, 4, 5])
        op, args = draw_pool_prior(rng)
        args = dict(args, name=None)
        extra_named = rng.random() < 0.5

        def fresh_model():
            prs = [b.emit(op, dict(args, name=(rng.choice(COLLIDE)
                                               if extra_named else None)),
                          store='pr') for _ in range(m)]
            members = [{'op': 'sphere', 'args': {
                'n': 1.59, 'r': prs[j],
                'center': [3.0 * j, 0.0, 10.0]}} for j in range(m)]
            sc = b.emit('spheres', {'members': members, 'warn': False},
                        store='sc')
            mo = b.emit('model', {'kind': 'alpha', 'sc': sc, 'alpha': 0.8,
                                  'optics': dict(OPT, noise_sd=0.1),
                                  'th': 'auto'}, store='mo',
                        tags={'k': 'model'})
            b.emit('model_probe', {'mo': mo, 'seed': rng.randrange(1000)},
                   tags={'k': 'probe', 'probe': True})
            return mo
        nt = 0
        for k in range(2, m + 1):
            for subset in itertools.combinations(range(m), k):
                mo = fresh_model()
                nt += 1
                b.emit('add_tie', {'mo': mo, 'idx': list(subset),
                                   'new_name': rng.choice([None,
                                                           'tied_%d' % nt])},
                       tags={'k': 'tie', 'tie': True})
                b.emit('model_probe', {'mo': mo,
                                       'seed': rng.randrange(1000)},
                       tags={'k': 'probe', 'probe': True})
                if k >= 3:
                    # the same subset composed from pairwise ties: after
                    # each tie the surviving parameter sits at the smallest
                    # index and later indices shift down
                    mo = fresh_model()
                    order = list(subset)
                    rng.shuffle(order)
                    live = list(range(m))        # sphere behind each index
                    first = order[0]
                    for nxt in order[1:]:
                        i, j = live.index(first), live.index(nxt)
                        b.emit('add_tie', {'mo': mo, 'idx': [i, j]},
                               tags={'k': 'tie', 'tie': True})
                        keep, drop = min(i, j), max(i, j)
                        live[keep] = first if keep == i else nxt
                        # both spheres now share the kept index
                        first = live[keep]
                        del live[drop]
                        b.emit('model_probe', {
                            'mo': mo, 'seed': rng.randrange(1000)},
                            tags={'k': 'probe', 'probe': True})
        return {'config': {'faults': {}, 'mode': 'exhaustive-ties', 'm': m,
                           'node': {}}, 'events': b.events}

    def generate(self, rng, tier='quick'):
        if rng.random() < (0.08 if tier == 'quick' else 0.3):
            return self.generate_exhaustive(rng, tier)
        b = Builder(rng)
        faults = {'F1': rng.random() < 0.5}
        pool = []
        protos = []
        # 'many' mode: (almost) every site gets its own prior, so that models
        # with 11+ parameters (two-digit placeholders) and ties among them
        # are explored
        many = rng.random() < 0.3
        for _ in range(rng.randint(2, 6) if not many else rng.randint(12, 20)):
            proto = rng.choice(protos) if protos and rng.random() < 0.45 \
                else None
            op, args = draw_pool_prior(rng, proto)
            protos.append((op, args))
            pool.append(b.emit(op, args, store='pr'))
        # ---- scatterer
        kind = rng.choice(['sphere', 'sphere', 'layered', 'spheres',
                           'spheres'])
        if many:
            kind = 'spheres'
            fresh = list(pool)
            rng.shuffle(fresh)
            _sv = self.site_value

            def site_value_many(rng_, pool_, fixed, allow_complex=False,
                                positive=False):
                if fresh and rng_.random() < 0.85:
                    return fresh.pop()
                return _sv(rng_, pool_, fixed, allow_complex, positive)
            self_site = site_value_many
        else:
            self_site = self.site_value

        def sphere_args(layers=1):
            if layers == 1:
                return {'n': self_site(rng, pool, 1.59, True),
                        'r': self_site(rng, pool, 0.5, positive=True),
                        'center': [self_site(rng, pool, v)
                                   for v in (1.0, 2.0, 10.0)]}
            return {'n': [self_site(rng, pool, 1.4 + 0.1 * i, True)
                          for i in range(layers)],
                    'r': [self_site(rng, pool, 0.3 * (i + 1),
                                    positive=True)
                          for i in range(layers)],
                    'center': [self_site(rng, pool, v)
                               for v in (1.0, 2.0, 10.0)]}
        if kind == 'sphere':
            sa_ = sphere_args()
            if rng.random() < 0.25:
                # per-channel dictionary at one site
                key_ = rng.choice(['n', 'r'])
                sa_[key_] = {'dict': [
                    [ch_, self_site(rng, pool, fx_, positive=(key_ == 'r'))]
                    for ch_, fx_ in (('red', 1.5 if key_ == 'n' else 0.5),
                                     ('green', 1.6 if key_ == 'n' else 0.6))]}
            sc = b.emit('sphere', sa_, store='sc')
        elif kind == 'layered':
            sc = b.emit('sphere', sphere_args(rng.randint(2, 3)), store='sc')
        else:
            members = [{'op': 'sphere', 'args': sphere_args(
                rng.choice([1, 1, 2]))}
                for _ in range(rng.randint(1, 4) if not many
                               else rng.randint(3, 4))]
            sc = b.emit('spheres', {'members': members, 'warn': False},
                        store='sc')
        # ---- model.  Sharing is promised between places of the scatterer
        # only, so every site outside the scatterer gets a dedicated prior.
        def own(fixed):
            op_, args_ = draw_pool_prior(
                rng, rng.choice(protos) if rng.random() < 0.4 else None)
            protos.append((op_, args_))
            h_ = b.emit(op_, args_, store='pr')
            return self.site_value(rng, [h_], fixed)
        spool = list(pool)
        pool = None
        mk = rng.choice(['alpha', 'alpha', 'exact'])
        optics = dict(OPT)
        if rng.random() < 0.4:
            optics['medium_index'] = own(1.33)
        if rng.random() < 0.3:
            optics['illum_wavelen'] = own(0.66)
        optics['noise_sd'] = rng.choice([None, 0.1,
                                         own(0.1)])
        th = 'auto'
        if kind == 'sphere' and rng.random() < 0.4:
            if rng.random() < 0.6:
                th = {'kind': 'MieLens', 'options': {
                    'lens_angle': own(1.0)}}
            else:
                th = {'kind': 'AberratedMieLens', 'options': {
                    'lens_angle': own(0.9),
                    'spherical_aberration': rng.choice([
                        own(0.1),
                        [own(0.1), 0.2]])}}
        if isinstance(th, dict) and rng.random() < 0.5:
            # a fixed (non-prior) theory option: must be left untouched
            th['options']['calculator_accuracy_kwargs'] = {
                'dict': [['quad_npts', rng.choice([60, 80])]]}
        margs = {'kind': mk, 'sc': sc, 'optics': optics, 'th': th}
        if mk == 'alpha':
            margs['alpha'] = own(0.8)
        mo = b.emit('model', margs, store='mo', tags={'k': 'model'})
        seed0 = rng.randrange(1000)
        b.emit('model_probe', {'mo': mo, 'seed': seed0},
               tags={'k': 'probe', 'probe': True})
        # a sibling model in the same session: the same description (same
        # prior objects) except for *fixed* values.  Each model must keep its
        # own fixed values whatever the other was asked before.
        mo2 = None
        if rng.random() < 0.4:
            import copy
            margs2 = copy.deepcopy(margs)
            if isinstance(margs2['th'], dict):
                margs2['th']['options']['calculator_accuracy_kwargs'] = {
                    'dict': [['quad_npts', rng.choice([30, 40])]]}
            if not isinstance(margs2['optics'].get('medium_index'), dict):
                margs2['optics']['medium_index'] = 1.36
            margs2['optics']['illum_polarization'] = [0, 1]
            mo2 = b.emit('model', margs2, store='mo2', tags={'k': 'model'})
            for m_ in rng.sample([mo2, mo, mo2], rng.randint(1, 3)):
                b.emit('model_probe', {'mo': m_, 'seed': seed0},
                       tags={'k': 'probe', 'probe': True})
        nsave = 0
        ntie = 0
        for _ in range(rng.randint(4, 22)):
            c = rng.random()
            if c < 0.3:
                sd_ = rng.randrange(1000)
                b.emit('model_probe', {'mo': mo, 'seed': sd_},
                       tags={'k': 'probe', 'probe': True})
                if mo2 is not None and rng.random() < 0.5:
                    b.emit('model_probe', {'mo': mo2, 'seed': sd_},
                           tags={'k': 'probe', 'probe': True})
            elif c < 0.55:
                k = rng.choice([1, 2, 2, 2, 3, 4, 5])
                idx = rng.sample(range(24), k)
                args = {'mo': mo, 'idx': idx}
                if rng.random() < 0.4:
                    ntie += 1
                    args['new_name'] = 'tied_%d' % ntie
                if rng.random() < 0.08:
                    args['bogus'] = 'no_such_parameter'
                if rng.random() < 0.1:
                    args['name_from'] = rng.randrange(24)
                if k > 1 and rng.random() < 0.12:
                    # a name listed twice among the parameters to tie
                    args['idx'] = idx + [idx[rng.randrange(k)]]
                    rng.shuffle(args['idx'])
                    args['repeat'] = True
                b.emit('add_tie', args, tags={'k': 'tie', 'tie': True})
            elif c < 0.7:
                b.emit('mutate_returned', {
                    'mo': mo, 'seed': rng.randrange(1000),
                    'what': rng.choice(['parameters', 'initial_guess',
                                        'scatterer', 'guess_scatterer',
                                        'sc_parameters'])},
                    tags={'k': 'mutate-returned'})
            elif c < 0.8:
                b.emit('sc_roundtrip', {'sc': sc},
                       tags={'k': 'sc-roundtrip', 'rt': True})
            elif c < 0.95 and faults['F1'] or c < 0.85:
                nsave += 1
                seed = rng.randrange(1000)
                path = 'model_%d.yaml' % nsave
                b.emit('model_probe', {'mo': mo, 'seed': seed},
                       tags={'k': 'probe', 'probe': True, 'pair': nsave,
                             'side': 'before'})
                b.emit('hp_save', {'obj': mo, 'path': path},
                       tags={'k': 'save'})
                if faults['F1'] and rng.random() < 0.7:
                    b.restart()
                mo = b.emit('hp_load', {'path': path}, store='mo',
                            tags={'k': 'load', 'loadmodel': True})
                b.emit('model_probe', {'mo': mo, 'seed': seed},
                       tags={'k': 'probe', 'probe': True, 'pair': nsave,
                             'side': 'after'})
                sc = None
                if not b.count('sc'):
                    # the scatterer object is gone after a restart
                    sc = {'h': 'sc', 'i': 0}
                else:
                    sc = {'h': 'sc', 'i': 0}
            elif rng.random() < 0.5:
                rc = self._rigid(b, rng)
                b.emit('sc_roundtrip', {'sc': rc},
                       tags={'k': 'rigid-roundtrip', 'rt': True,
                             'rigid': True})
            else:
                self._rigid_model(b, rng)
        return {'config': {'faults': faults, 'node': {}}, 'events': b.events}

    def _rigid(self, b, rng):
        members = []
        for j in range(rng.randint(1, 4)):
            members.append({'n': 1.5, 'r': rfloat(rng, 0.2, 0.5, 3),
                            'center': [rfloat(rng, -2, 2, 3) + 3 * j,
                                       rfloat(rng, -2, 2, 3),
                                       rfloat(rng, 5, 9, 3)]})
        sp = b.emit('spheres', {'members': members, 'warn': False},
                    store='sps')
        tr = [rfloat(rng, -3, 3, 3) for _ in range(3)]
        if rng.random() < 0.3:
            # displacements that cancel in the sum (or are partly zero)
            tr = rng.choice([[2.0, -2.0, 0.0], [-3.5, 3.5, 0.0],
                             [0.5, 0.25, -0.75], [0.0, 0.0, 1.5],
                             [1.0, 0.0, -1.0]])
        return b.emit('rigid_cluster', {
            'spheres': sp, 'translation': tr,
            'rotation': [rfloat(rng, 0, 6, 3) for _ in range(3)]},
            store='rc')

    def _rigid_model(self, b, rng):
        """A model whose scatterer is a rigid cluster with priors among the
        member, rotation and translation values."""
        cnt = [0]

        def site(fixed, lo, hi, p=0.5):
            if rng.random() >= p:
                return fixed, fixed
            cnt[0] += 1
            name = 'q%d' % cnt[0]
            return ({'ctor': 'uniform', 'args': {
                'lo': lo, 'hi': hi, 'name': name}}, {'p': name})
        margs, mspec = [], []
        for j in range(rng.randint(1, 3)):
            r_a, r_s = site(rfloat(rng, 0.2, 0.5, 3), 0.1, 0.6, 0.3)
            n_a, n_s = site(1.5, 1.4, 1.7, 0.2)
            cen = [site(rfloat(rng, -2, 2, 3) + 3 * j, -3, 9, 0.15),
                   site(rfloat(rng, -2, 2, 3), -3, 3, 0.15),
                   site(rfloat(rng, 5, 9, 3), 4, 10, 0.15)]
            margs.append({'op': 'sphere', 'args': {
                'n': n_a, 'r': r_a, 'center': [c[0] for c in cen]}})
            mspec.append({'n': n_s, 'r': r_s, 'center': [c[1] for c in cen]})
        rot = [site(rfloat(rng, 0, 3, 3), 0, 3.1) for _ in range(3)]
        if rng.random() < 0.3:
            # fixed displacements that cancel in the sum
            tra = [(v_, v_) for v_ in rng.choice([
                [2.0, -2.0, 0.0], [-3.5, 3.5, 0.0], [0.5, 0.25, -0.75]])]
        else:
            tra = [site(rfloat(rng, -3, 3, 3), -4, 4) for _ in range(3)]
        sp = b.emit('spheres', {'members': margs, 'warn': False},
                    store='sps')
        rc = b.emit('rigid_cluster', {
            'spheres': sp, 'translation': [t[0] for t in tra],
            'rotation': [r_[0] for r_ in rot]}, store='rc')
        mo = b.emit('model', {'kind': 'alpha', 'sc': rc, 'alpha': 0.8,
                              'optics': dict(OPT), 'th': 'auto'},
                    store='rmo', tags={'k': 'model-rigid'})
        spec = {'members': mspec, 'rotation': [r_[1] for r_ in rot],
                'translation': [t[1] for t in tra],
                'names': ['q%d' % (i + 1) for i in range(cnt[0])]}
        for _ in range(rng.randint(1, 2)):
            b.emit('rigid_model_probe', {'mo': mo, 'spec': spec,
                                         'seed': rng.randrange(1000)},
                   tags={'k': 'rigid-model', 'rigidmodel': True})
        if rng.random() < 0.5:
            # ... and after a trip through its text form
            path = 'rigid_model_%d.yaml' % len(b.events)
            b.emit('hp_save', {'obj': mo, 'path': path}, tags={'k': 'save'})
            mo2 = b.emit('hp_load', {'path': path}, store='rmo',
                         tags={'k': 'load', 'loadmodel': True})
            b.emit('rigid_model_probe', {'mo': mo2, 'spec': spec,
                                         'seed': rng.randrange(1000)},
                   tags={'k': 'rigid-model-reloaded', 'rigidmodel': True})

    def _check_rigid_model(self, ex, ev, rec):
        ex.stats['oracle_sim'] += 1
        if rec['outcome'] != 'ok':
            ex.add(violation('C11.rigid-model', ev['id'],
                             'querying a model on a rigid cluster raised '
                             '%s: %s' % (rec['exc'], rec['msg'][:100]),
                             sig='C11.rigid-model:exc:' + rec['exc']))
            return
        p = dict(rec['payload']['__dict__'])
        spec = rec['rargs']['spec']

        def und(v):
            return dict(v['__dict__']) if isinstance(v, dict) and \
                '__dict__' in v else v
        for key in ('built_list', 'built_dict', 'built_guess', 'ref',
                    'ref_guess'):
            d = und(p[key])
            if 'exc' in d:
                if key.startswith('ref'):
                    return      # the public route refuses these values
                ex.add(violation('C11.rigid-model', ev['id'],
                                 '%s raised %s: %s' % (key, d['exc'],
                                                       d.get('msg', '')[:80]),
                                 sig='C11.rigid-model:%s:%s' % (key,
                                                                d['exc'])))
                return
        if sorted(p['names']) != sorted(spec['names']):
            ex.add(violation('C11.rigid-model', ev['id'],
                             'parameter names %r, priors used: %r' % (
                                 p['names'], spec['names']),
                             sig='C11.rigid-model:names'))
            return

        def same(a, b_):
            a, b_ = und(a), und(b_)
            if len(a['centers']) != len(b_['centers']):
                return 'number of members'
            for i, (x, y) in enumerate(zip(a['centers'], b_['centers'])):
                if np.max(np.abs(np.asarray(x) - np.asarray(y))) > 1e-9:
                    return 'centre of member %d: %r vs %r' % (
                        i, np.asarray(x).tolist(), np.asarray(y).tolist())
            for k_ in ('r', 'n'):
                for i, (x, y) in enumerate(zip(a[k_], b_[k_])):
                    if abs(_plainval(x) - _plainval(y)) > 1e-12:
                        return '%s of member %d: %r vs %r' % (k_, i, x, y)
            return None
        for got, want, what in (
                ('built_list', 'ref', 'scatterer built from parameter values'),
                ('built_dict', 'ref', 'scatterer built from name-keyed '
                                      'values'),
                ('built_guess', 'ref_guess', 'initial-guess scatterer')):
            d = same(p[got], p[want])
            if d:
                ex.add(violation(
                    'C11.rigid-model', ev['id'],
                    '%s of a model on a rigid cluster is not the rotated and '
                    'translated collection of the substituted members: %s'
                    % (what, d), sig='C11.rigid-model:' + got))
                return

    # -------------------------------------------------------------- oracle
    def oracle(self, ex):
        evs = ex.events_by_id
        state = {}         # model ref -> {'names': [...], 'classes': [set]}
        pairs = {}
        for ev in ex.run['events']:
            rec = ex.records.get(ev.get('id'))
            if not rec or rec['outcome'] in ('skip', 'died'):
                continue
            tags = ev.get('tags', {})
            op = ev['op']
            if op == 'model' and rec['outcome'] == 'exc':
                ex.add(violation(
                    'C11.construct', ev['id'],
                    'model construction raised %s: %s' % (
                        rec['exc'], rec['msg'][:120]),
                    sig='C11.construct:' + rec['exc']))
            elif op == 'hp_load' and tags.get('loadmodel') and \
                    rec['outcome'] == 'exc':
                ex.add(violation(
                    'C11.reload', ev['id'],
                    'reloading a saved model raised %s: %s' % (
                        rec['exc'], rec['msg'][:120]),
                    sig='C11.reload:exc:' + rec['exc']))
            elif op == 'hp_save' and rec['outcome'] == 'exc':
                ex.add(violation(
                    'C11.reload', ev['id'],
                    'saving a model raised %s: %s' % (
                        rec['exc'], rec['msg'][:120]),
                    sig='C11.reload:save-exc:' + rec['exc']))
            elif tags.get('probe') and rec['outcome'] == 'ok':
                self._check_probe(ex, ev, rec, state)
                if tags.get('pair') is not None:
                    pairs.setdefault(tags['pair'], {})[tags['side']] = \
                        (ev, rec)
            elif tags.get('probe') and rec['outcome'] == 'exc':
                ex.add(violation('C11.query', ev['id'],
                                 'model query raised %s: %s' % (
                                     rec['exc'], rec['msg'][:100]),
                                 sig='C11.query:' + rec['exc']))
            elif tags.get('rigidmodel'):
                self._check_rigid_model(ex, ev, rec)
            elif tags.get('tie'):
                self._check_tie(ex, ev, rec, state)
            elif tags.get('rt'):
                self._check_roundtrip(ex, ev, rec)
        for k, d in pairs.items():
            if 'before' in d and 'after' in d:
                self._check_reload_pair(ex, d['before'], d['after'])

    # ---- expression evaluation over parameter values
    def _eval(self, ex, e, env):
        """Value of a site expression given env: pool id -> value.
        Returns (value, set of pool ids used)."""
        if isinstance(e, dict) and 'ref' in e:
            if e['ref'] not in env:
                raise KeyError(e['ref'])
            return env[e['ref']], {e['ref']}
        if isinstance(e, dict) and 'fn' in e:
            vals, used = [], set()
            for a in e['args']:
                v, u = self._eval(ex, a, env)
                vals.append(v)
                used |= u
            return apply_fn(e['fn'], vals), used
        if isinstance(e, dict) and 'ctor' in e and \
                e['ctor'] == 'complex_prior':
            r, u1 = self._eval(ex, e['args']['real'], env)
            i, u2 = self._eval(ex, e['args']['imag'], env)
            return complex(r, i), u1 | u2
        if isinstance(e, dict) and 'dict' in e and len(e) == 1:
            out, used = {}, set()
            for k_, a in e['dict']:
                v, u = self._eval(ex, a, env)
                out[k_] = v
                used |= u
            return out, used
        if isinstance(e, dict) and 'c' in e:
            return complex(*e['c']), set()
        if isinstance(e, dict) and 'npf' in e:
            return float(e['npf']), set()
        if isinstance(e, list):
            out, used = [], set()
            for a in e:
                v, u = self._eval(ex, a, env)
                out.append(v)
                used |= u
            return out, used
        return e, set()

    def _sites(self, ex, mrec):
        """{'scatterer': {key: expr}, 'theory': {key: expr}, ...} from the
        resolved constructor arguments of a model."""
        ra = mrec['rargs']
        sref = ra['sc'].get('ref') if isinstance(ra['sc'], dict) else None
        srec = ex.records.get(sref)
        sev = ex.events_by_id.get(sref)
        if not srec or srec['outcome'] != 'ok' or sev is None:
            return None
        sa = srec['rargs']
        sites = {}
        if sev['op'] == 'sphere':
            for k in ('n', 'r', 'center'):
                sites[k] = sa[k]
        elif sev['op'] == 'spheres':
            for i, m in enumerate(sa['members']):
                a = m['args']
                for k in ('n', 'r', 'center'):
                    sites['%d:%s' % (i, k)] = a[k]
        else:
            return None
        th = {}
        t = ra.get('th')
        if isinstance(t, dict) and 'options' in t:
            th = dict(t['options'])
        others = {'alpha': ra.get('alpha')}
        for k, v in (ra.get('optics') or {}).items():
            others['optics.' + k] = v
        return {'scatterer': sites, 'theory': th, 'other': others}

    def _all_ids(self, ex, sites):
        ids = []

        def walk(e):
            if isinstance(e, dict) and 'ref' in e:
                if e['ref'] not in ids:
                    ids.append(e['ref'])
            elif isinstance(e, dict) and 'dict' in e and len(e) == 1:
                for _, v in e['dict']:
                    walk(v)
            elif isinstance(e, dict):
                for v in (e.get('args') if isinstance(e.get('args'), list)
                          else list((e.get('args') or {}).values())):
                    walk(v)
            elif isinstance(e, list):
                for v in e:
                    walk(v)
        for grp in sites.values():
            for e in grp.values():
                walk(e)
        return ids

    def _model_root(self, ex, ref):
        """Constructor record of the model behind a handle, or None if it
        was loaded from a file."""
        ev = ex.events_by_id.get(ref)
        if ev is None:
            return None
        if ev['op'] == 'model':
            return ex.records.get(ref)
        return None

    def _check_probe(self, ex, ev, rec, state):
        ra = rec['rargs']
        mref = ra['mo'].get('ref')
        p = dict(rec['payload']['__dict__'])
        names = p['names']
        ex.stats['oracle_sim'] += 1
        if len(set(names)) != len(names):
            ex.add(violation('C11.names', ev['id'],
                             'parameter names are not unique: %r' % names,
                             sig='C11.names:unique'))
            return
        # dict-keyed and list-ordered values give the same object
        from sim import canon
        if canon.digest(p['sc_list']) != canon.digest(p['sc_dict']):
            ex.add(violation('C11.keyed', ev['id'],
                             'name-keyed and list-ordered values give '
                             'different scatterers',
                             sig='C11.keyed:scatterer'))
            return
        if canon.digest(p['th']) != canon.digest(p['th_dict']):
            ex.add(violation('C11.keyed', ev['id'],
                             'name-keyed and list-ordered values give '
                             'different theories', sig='C11.keyed:theory'))
            return
        for key in ('sc_list', 'th', 'guess_sc', 'initial_guess'):
            v = p[key]
            if isinstance(v, dict) and '__dict__' in v and \
                    dict(v['__dict__']).get('exc'):
                d = dict(v['__dict__'])
                ex.add(violation('C11.query', ev['id'],
                                 '%s raised %s: %s' % (key, d['exc'],
                                                       d.get('msg', '')[:80]),
                                 sig='C11.query:%s:%s' % (key, d['exc'])))
                return
        mrec = self._model_root(ex, mref)
        if mrec is None or mrec['outcome'] != 'ok':
            return          # reloaded model: judged by the reload pair
        sites = self._sites(ex, mrec)
        if sites is None:
            return
        st = state.get(mref)
        pool_ids = p['pool_ids']
        if st is None:
            # fresh model: one parameter per distinct prior.  Priors used
            # in the scatterer are copied by the model (identity is kept
            # among the scatterer's own sites only), so the parameter <->
            # prior correspondence is recovered from definitions and from
            # where the probe values end up.
            sc_ids = self._all_ids(ex, {'s': sites['scatterer']})
            other_ids = self._all_ids(ex, {'t': sites['theory'],
                                           'o': sites['other']})
            known = [pid for pid in pool_ids if pid is not None]
            unknown = [i for i, pid in enumerate(pool_ids) if pid is None]
            if sorted(map(str, known)) != sorted(map(str, other_ids)) or \
                    len(unknown) != len(sc_ids):
                ex.add(violation(
                    'C11.partition', ev['id'],
                    'model exposes %d parameters (%d for the scatterer); '
                    'the description uses %d distinct priors in the '
                    'scatterer and %d elsewhere' % (
                        len(names), len(unknown), len(sc_ids),
                        len(other_ids)), sig='C11.partition:initial'))
                return
            assign = self._match(ex, sites['scatterer'], sc_ids, unknown,
                                 p)
            if assign is None:
                ex.add(violation(
                    'C11.mapping', ev['id'],
                    'no assignment of the scatterer\'s %d priors to the '
                    'model\'s parameters puts each value at every place '
                    'its prior was used' % len(sc_ids),
                    sig='C11.mapping:assignment'))
                return
            classes = []
            for i, pid in enumerate(pool_ids):
                classes.append({pid} if pid is not None else {assign[i]})
            st = {'names': list(names), 'classes': classes}
            state[mref] = st
        else:
            if names != st['names']:
                ex.add(violation(
                    'C11.names', ev['id'],
                    'parameter names %r, expected %r after the ties so far'
                    % (names, st['names']), sig='C11.names:after-tie'))
                return
            for pid, cls in zip(pool_ids, st['classes']):
                if pid is not None and pid not in cls:
                    ex.add(violation(
                        'C11.partition', ev['id'],
                        'parameter object %r is not in its tie class %r'
                        % (pid, sorted(cls)), sig='C11.partition:class'))
                    return
        vec = p['vec']
        env = {}
        for v, cls in zip(vec, st['classes']):
            for pid in cls:
                env[pid] = v
        genv = {}
        for g, cls in zip(p['guesses'], st['classes']):
            g = g['v'] if isinstance(g, dict) and '__npscalar__' in g else g
            for pid in cls:
                genv[pid] = g
        self._compare_sites(ex, ev, sites['scatterer'], p['sc_list'], env,
                            'scatterer')
        self._compare_sites(ex, ev, sites['scatterer'], p['guess_sc'], genv,
                            'initial-guess scatterer')
        if sites['theory']:
            thv = p['th']
            got = dict(thv['vars']['__dict__']) if isinstance(thv, dict) \
                and 'vars' in thv else {}
            self._compare_sites(ex, ev, sites['theory'], got, env, 'theory',
                                asdict=True)
        # initial guess dictionary uses each prior's guess
        ig = dict(p['initial_guess']['__dict__'])
        for n_, g in zip(names, p['guesses']):
            if canon.digest(ig.get(n_)) != canon.digest(g):
                ex.add(violation('C11.guess', ev['id'],
                                 'initial_guess[%r] is not the prior\'s '
                                 'guess' % n_, sig='C11.guess'))
                return

    def _compare_sites(self, ex, ev, sites, got, env, what, asdict=False):
        if not asdict:
            if not (isinstance(got, dict) and '__dict__' in got):
                return
            got = dict(got['__dict__'])
        for key, expr in sites.items():
            try:
                with np.errstate(all='ignore'):
                    want, _ = self._eval(ex, expr, env)
            except KeyError:
                continue
            if key not in got:
                if want is None:
                    continue
                ex.add(violation(
                    'C11.mapping', ev['id'],
                    '%s built from parameter values has no %r' % (what, key),
                    sig='C11.mapping:missing:' + what))
                return
            if not _close(got[key], want):
                ex.add(violation(
                    'C11.mapping', ev['id'],
                    '%s site %r is %s, expected %r from the parameter '
                    'values' % (what, key, _short(got[key]), want),
                    sig='C11.mapping:value:' + what))
                return

    def _match(self, ex, sites, sc_ids, unknown, p):
        """Bijection parameter index -> scatterer prior id consistent with
        the prior definitions and with every site value; None if none."""
        import itertools
        vec = p['vec']
        got = p['sc_list']
        if not (isinstance(got, dict) and '__dict__' in got):
            return None
        got = dict(got['__dict__'])
        pdefs = {pid: self._node_def(self._prior_def(ex, pid))
                 for pid in sc_ids}
        ndefs = {i: tuple(p['defs'][i]) for i in unknown}
        cands = {i: [pid for pid in sc_ids if pdefs[pid] == ndefs[i]]
                 for i in unknown}
        # 1. sites that are a bare prior pin its parameter directly (the
        #    probe values are pairwise distinct)
        fixed = {}

        def pin(expr, value):
            if isinstance(expr, dict) and 'ref' in expr and \
                    expr['ref'] in sc_ids:
                for i in unknown:
                    if expr['ref'] in cands[i] and _close(value, vec[i]):
                        fixed.setdefault(expr['ref'], i)
                        return
            elif isinstance(expr, dict) and 'dict' in expr and \
                    len(expr) == 1:
                if isinstance(value, dict) and '__dict__' in value:
                    gd = dict(value['__dict__'])
                    for k_, e_ in expr['dict']:
                        if k_ in gd:
                            pin(e_, gd[k_])
            elif isinstance(expr, list):
                v = _plainval(value)
                if isinstance(v, list) and len(v) == len(expr):
                    for e_, v_ in zip(expr, v):
                        pin(e_, v_)
        for key, expr in sites.items():
            if key in got:
                pin(expr, got[key])
        used_idx = set(fixed.values())
        if len(used_idx) != len(fixed):
            return None
        rest_ids = [pid for pid in sc_ids if pid not in fixed]
        rest_idx = [i for i in unknown if i not in used_idx]
        # 2. priors that occur only inside expressions: small search
        tried = 0
        for combo in itertools.permutations(rest_idx, len(rest_ids)):
            tried += 1
            if tried > 5000:
                break
            if any(pid not in cands[i] for pid, i in zip(rest_ids, combo)):
                continue
            env = {pid: vec[i] for pid, i in fixed.items()}
            env.update({pid: vec[i] for pid, i in zip(rest_ids, combo)})
            ok = True
            for key, expr in sites.items():
                try:
                    with np.errstate(all='ignore'):
                        want, _ = self._eval(ex, expr, env)
                except KeyError:
                    ok = False
                    break
                if key not in got or not _close(got[key], want):
                    ok = False
                    break
            if ok:
                out = {i: pid for pid, i in fixed.items()}
                out.update({i: pid for pid, i in zip(rest_ids, combo)})
                return out
        return None

    @staticmethod
    def _node_def(d):
        if d is None:
            return None
        if d[0] == 'uniform':
            return ('Uniform', float(d[1]), float(d[2]), float(d[3]))
        if d[0] == 'gaussian':
            return ('Gaussian', float(d[1]), float(d[1]), float(d[2]))
        return ('BoundedGaussian', float(d[3]), float(d[4]), float(d[1]),
                float(d[1]), float(d[2]))

    def _prior_def(self, ex, pid):
        e = ex.events_by_id.get(pid)
        if e is None:
            return None
        a = dict(e['args'])
        a.pop('name', None)
        if e['op'] == 'uniform':
            lo, hi = num(a['lo']), num(a['hi'])
            g = a.get('guess')
            if g is None:
                g = (lo + hi) / 2
            return ('uniform', lo, hi, g)
        if e['op'] == 'gaussian':
            return ('gaussian', a['mu'], a['sd'])
        return ('bounded', a['mu'], a['sd'], num(a.get('lo', '-inf')),
                num(a.get('hi', 'inf')))

    def _check_tie(self, ex, ev, rec, state):
        mref = rec['rargs']['mo'].get('ref')
        st = state.get(mref)
        used = (rec.get('extra') or {}).get('used')
        before = (rec.get('extra') or {}).get('names_before')
        if st is None or used is None:
            return
        ex.stats['oracle_sim'] += 1
        if before != st['names']:
            return
        legal = all(u in st['names'] for u in used)
        if legal:
            defs = []
            for u in used:
                cls = st['classes'][st['names'].index(u)]
                defs.append(self._prior_def(ex, sorted(cls, key=str)[0]))
            legal = all(d == defs[0] for d in defs)
        new_name = (rec.get('extra') or {}).get(
            'new_name', ev['args'].get('new_name'))
        collides = new_name is not None and new_name in st['names'] and \
            new_name not in used
        if rec['outcome'] == 'exc':
            if rec['exc'] == 'ValueError' and collides:
                return      # a name already taken may be refused
            if legal or rec['exc'] != 'ValueError':
                ex.add(violation(
                    'C11.tie', ev['id'],
                    'tying %r raised %s: %s' % (used, rec['exc'],
                                                rec['msg'][:100]),
                    sig='C11.tie:refused:' + rec['exc']))
            return
        if not legal:
            ex.add(violation('C11.tie', ev['id'],
                             'tying unequal / unknown parameters %r was '
                             'accepted' % (used,), sig='C11.tie:accepted'))
            return
        idx = sorted(st['names'].index(u) for u in used)
        merged = set()
        for i in idx:
            merged |= st['classes'][i]
        names, classes = [], []
        for i, (n_, c) in enumerate(zip(st['names'], st['classes'])):
            if i == idx[0]:
                names.append(new_name if new_name is not None else n_)
                classes.append(merged)
            elif i in idx:
                continue
            else:
                names.append(n_)
                classes.append(c)
        st['names'], st['classes'] = names, classes
        after = dict(rec['payload']['__dict__'])['names_after']
        if len(set(after)) != len(after):
            ex.add(violation(
                'C11.tie', ev['id'],
                'after tying %r as %r two parameters share a name: %r' % (
                    used, new_name, after), sig='C11.tie:duplicate-name'))
            return
        if collides:
            # accepted with another (unique) name: follow the library
            names = list(after) if len(after) == len(names) else names
            st['names'] = names
        if after != names:
            ex.add(violation(
                'C11.tie', ev['id'],
                'after tying %r the parameters are %r, expected %r (exactly '
                'the duplicates removed)' % (used, after, names),
                sig='C11.tie:names'))

    def _check_roundtrip(self, ex, ev, rec):
        ex.stats['oracle_sim'] += 1
        if rec['outcome'] != 'ok':
            ex.add(violation('C11.roundtrip', ev['id'],
                             'from_parameters(parameters) raised %s: %s' % (
                                 rec['exc'], rec['msg'][:100]),
                             sig='C11.roundtrip:exc:' + rec['exc']))
            return
        p = dict(rec['payload']['__dict__'])
        from sim import canon
        if ev.get('tags', {}).get('rigid'):
            nc = [np.asarray(c) for c in p.get('new_centers', [])]
            oc = [np.asarray(c) for c in p.get('orig_centers', [])]
            bc = [np.asarray(c) for c in p.get('base_centers', [])]
            if len(nc) != len(oc) or any(
                    np.max(np.abs(a - b)) > 1e-9 for a, b in zip(nc, oc)):
                ex.add(violation(
                    'C11.roundtrip', ev['id'],
                    'rigid cluster rebuilt from its parameters is not the '
                    'rotated and translated collection',
                    sig='C11.roundtrip:rigid'))
                return
            for i in range(len(nc)):
                for j in range(i + 1, len(nc)):
                    if abs(np.linalg.norm(nc[i] - nc[j]) -
                           np.linalg.norm(bc[i] - bc[j])) > 1e-9:
                        ex.add(violation(
                            'C11.roundtrip', ev['id'],
                            'rigid cluster distances not preserved',
                            sig='C11.roundtrip:rigid-distance'))
                        return
            return
        if not p['class_same'] or not p['eq'] or \
                canon.digest(p['new_parameters']) != \
                canon.digest(p['parameters']):
            ex.add(violation(
                'C11.roundtrip', ev['id'],
                'scatterer rebuilt from its own parameter dictionary '
                'differs from the original (class same: %s, ==: %s)' % (
                    p['class_same'], p['eq']), sig='C11.roundtrip:equal'))

    def _check_reload_pair(self, ex, before, after):
        (ev0, r0), (ev1, r1) = before, after
        ex.stats['oracle_sim'] += 1
        a = dict(r0['payload']['__dict__'])
        b = dict(r1['payload']['__dict__'])
        from sim import canon
        for key in ('names', 'guesses', 'sc_list', 'sc_dict', 'sc_class',
                    'th', 'initial_guess', 'guess_sc', 'prior_names'):
            if canon.digest(a[key]) != canon.digest(b[key]):
                ex.add(violation(
                    'C11.reload', ev1['id'],
                    'reloaded model differs from the saved one in %s: %s'
                    % (key, canon.diff(a[key], b[key])),
                    sig='C11.reload:' + key))
                return


def _plainval(v):
    if isinstance(v, dict) and '__npscalar__' in v:
        return np.asarray(v['v']).item()
    if isinstance(v, dict) and '__tuple__' in v:
        return [_plainval(i) for i in v['__tuple__']]
    if isinstance(v, np.ndarray):
        return [_plainval(i) for i in v.tolist()]
    if isinstance(v, list):
        return [_plainval(i) for i in v]
    return v


def _close(got, want):
    if isinstance(want, dict):
        if not (isinstance(got, dict) and '__dict__' in got):
            return False
        gd = dict(got['__dict__'])
        return sorted(gd) == sorted(want) and all(
            _close(gd[k], want[k]) for k in want)
    got = _plainval(got)
    if isinstance(want, list):
        if not isinstance(got, list) or len(got) != len(want):
            return False
        return all(_close(g, w) for g, w in zip(got, want))
    if want is None:
        return got is None
    try:
        g = complex(got)
        w = complex(want)
    except (TypeError, ValueError):
        return got == want
    if g != g and w != w:
        return True
    if math.isinf(abs(w)) or math.isinf(abs(g)):
        return g == w
    return abs(g - w) <= 1e-12 * max(1.0, abs(w))


def _short(v):
    return repr(_plainval(v))[:80]


PROP = C11()
