"""C15 - HoloPy objects survive save -> load unchanged.

[SIM]   everything is I/O and history: file and stream targets, 1..3
        consecutive save/load cycles, loading in a different interpreter
        (restart: the tag -> constructor table is whatever that interpreter
        imported), overwriting existing paths, hostile-but-legal streams, and
        libc-level faults (error, short read/write, EINTR, crash, torn write)
        at chosen call indices of a save or load.  Reference model: path ->
        snapshot of the last acknowledged object.
"""
import math

from sim import canon
from sim.gen import Builder, rfloat
from sim.runner import violation

ERRNOS = [28, 5, 122, 13, 24]       # ENOSPC EIO EDQUOT EACCES EMFILE


def C(cls_, **kw):
    return {"cls": cls_, "kw": kw}


class SpecGen:
    """Random valid constructor arguments for every exported class."""

    def __init__(self, rng, containers=True, npscalars=True):
        self.rng = rng
        self.containers = containers
        self.npscalars = npscalars
        self.plain_only = False      # lists / scalars only (for ==)

    def num(self, lo=0.1, hi=2.0, allow_np=True):
        r = self.rng
        c = r.random()
        v = rfloat(r, lo, hi, r.choice([2, 4, 9, 15]))
        if self.plain_only or not self.npscalars or not allow_np:
            return v if c < 0.85 else int(max(1, round(v)))
        if c < 0.55:
            return v
        if c < 0.62:
            return int(max(1, round(v)))
        if c < 0.70:
            return {'np': 'float64', 'v': v}
        if c < 0.76:
            return {'np': 'float32', 'v': v}
        if c < 0.80:
            return {'np': 'int64', 'v': int(max(1, round(v)))}
        if c < 0.84:
            return {'np': 'int32', 'v': int(max(1, round(v)))}
        if c < 0.88:
            return r.choice([1e-300, 1e300, 1.7976931348623157e308,
                             5e-324, 1e22, 0.1 + 0.2, 123456789.123456789])
        return v

    def shared_const(self, real=False):
        """One of a few constant objects used in several places."""
        k = self.rng.choice([1, 2]) if real else self.rng.randrange(4)
        vals = [{'c': [0.0, 1e-4]}, {'np': 'float32', 'v': 0.25},
                {'np': 'int64', 'v': 2},
                {'np': 'complex128', 'v': {'c': [0.5, 0.01]}}]
        return {'shared': 'k%d' % k, 'value': vals[k]}

    def index(self):
        r = self.rng
        c = r.random()
        if c < 0.06 and not self.plain_only and self.npscalars:
            return {'shared': 'n0', 'value': {'c': [1.55, 0.02]}}
        if c < 0.14 and not self.plain_only and self.npscalars:
            # an uncertain real part plus the *same* small absorption
            # constant wherever it is used
            return {'fn': 'add', 'args': [
                self.prior_expr(2),
                {'shared': 'k0', 'value': {'c': [0.0, 1e-4]}}]}
        if c < 0.6:
            return self.num(1.3, 1.8)
        if c < 0.8:
            return {'c': [rfloat(r, 1.3, 1.8, 4), rfloat(r, 0, 0.1, 5)]}
        if c < 0.9 and not self.plain_only and self.npscalars:
            # full double precision in both parts (e.g. a computed index)
            return {'np': 'complex128', 'v': {'c': [
                r.choice([1.5, rfloat(r, 1.3, 1.8, 16)]),
                r.choice([0.01, rfloat(r, 0, 0.1, 17)])]}}
        return self.prior()

    def seq(self, items):
        r = self.rng
        if self.plain_only or not self.containers:
            return list(items)
        c = r.random()
        if c < 0.5:
            return list(items)
        if c < 0.75:
            return {'tuple': list(items)}
        if all(isinstance(i, (int, float)) for i in items):
            return {'arr': list(items)}
        return list(items)

    def center(self, allow_none=True):
        r = self.rng
        if allow_none and r.random() < 0.1:
            return None
        return self.seq([self.num(-5, 5, allow_np=False) for _ in range(3)])

    def rotation(self, n=3):
        return self.seq([rfloat(self.rng, 0, 3.1, 4) for _ in range(n)])

    def prior(self, depth=0):
        r = self.rng
        c = r.random()
        name = r.choice([None, None, 'p', 'radius', 'a b'])
        if name is not None and self.npscalars and not self.plain_only \
                and r.random() < 0.1:
            # a name taken from an array of labels
            name = {'np': 'str_', 'v': name}
        if c < 0.4:
            lo = rfloat(r, 0, 2, 4)
            kw = {'lower_bound': lo, 'upper_bound': round(lo + rfloat(
                r, 0.1, 3, 4), 6), 'name': name}
            if r.random() < 0.3:
                kw['guess'] = round(lo + 0.05, 6)
            if r.random() < 0.1:
                kw['upper_bound'] = {'f': 'inf'}
            return C('Uniform', **kw)
        if c < 0.6:
            return C('Gaussian', mu=rfloat(r, -2, 2, 4),
                     sd=rfloat(r, 0.01, 2, 4), name=name)
        if c < 0.75:
            mu = rfloat(r, -2, 2, 4)
            return C('BoundedGaussian', mu=mu, sd=rfloat(r, 0.01, 2, 4),
                     lower_bound=round(mu - 1, 4),
                     upper_bound=r.choice([round(mu + 1, 4), {'f': 'inf'}]),
                     name=name)
        if c < 0.85 and depth < 2:
            return C('ComplexPrior',
                     real=r.choice([1.5, self.prior(depth + 1)]),
                     imag=r.choice([0.01, self.prior(depth + 1)]), name=name)
        if depth < 2:
            fn = r.choice(['add', 'mul', 'sub', 'div', 'neg', 'pow',
                           'ufunc:sqrt', 'ufunc:exp', 'ufunc:add'])
            a = self.prior_expr(depth + 1)
            if fn in ('neg', 'ufunc:sqrt', 'ufunc:exp'):
                return {'fn': fn, 'args': [a]}
            other = r.choice([2, 0.5, 3.0])
            if not self.plain_only and self.npscalars and r.random() < 0.3:
                other = self.shared_const(real=fn not in ('add', 'sub',
                                                         'ufunc:add'))
            return {'fn': fn, 'args': [a, other]}
        return C('Gaussian', mu=0.5, sd=0.1, name=name)

    def prior_expr(self, depth):
        p = self.prior(depth)
        if 'cls' in p:
            return {'ctor_spec': p}
        return p

    def sphere(self, layered=None):
        r = self.rng
        layered = r.random() < 0.25 if layered is None else layered
        if layered:
            k = r.randint(2, 4)
            return C('Sphere', n=self.seq([self.index() for _ in range(k)]),
                     r=self.seq([round(0.2 * (i + 1), 3) for i in range(k)]),
                     center=self.center())
        rr = r.choice([self.num(0.2, 1.5), self.prior()]) \
            if r.random() < 0.9 else self.num(0.2, 1.5)
        return C('Sphere', n=self.index(), r=rr, center=self.center())

    def scatterer(self, depth=0):
        r = self.rng
        kind = r.choice(['Sphere', 'Sphere', 'LayeredSphere', 'Spheres',
                         'RigidCluster', 'Ellipsoid', 'Capsule', 'Cylinder',
                         'Bisphere', 'Spheroid', 'JanusSphere_Uniform',
                         'JanusSphere_Tapered', 'Scatterers', 'Union',
                         'Difference', 'Intersection'])
        if depth > 1 and kind in ('Scatterers', 'Spheres', 'RigidCluster',
                                  'Union', 'Difference', 'Intersection'):
            kind = 'Sphere'
        if kind == 'Sphere':
            return self.sphere()
        if kind == 'LayeredSphere':
            k = r.randint(1, 4)
            return C('LayeredSphere',
                     n=self.seq([self.num(1.3, 1.8, False) for _ in range(k)]),
                     t=self.seq([self.num(0.1, 0.5, False) for _ in range(k)]),
                     center=self.center())
        if kind == 'Spheres':
            return C('Spheres', scatterers=[
                self.far_sphere(j) for j in range(r.randint(1, 4))],
                warn=r.choice([True, False, True]))
        if kind == 'RigidCluster':
            return C('RigidCluster', spheres=C('Spheres', scatterers=[
                self.far_sphere(j) for j in range(r.randint(1, 3))]),
                translation=self.center(False), rotation=self.rotation())
        if kind == 'Ellipsoid':
            return C('Ellipsoid', n=self.index(),
                     r=self.seq([self.num(0.2, 2, False) for _ in range(3)]),
                     center=self.center(), rotation=self.rotation())
        if kind in ('Capsule', 'Cylinder', 'Bisphere'):
            return C(kind, n=self.index(), h=self.num(0.5, 2),
                     d=self.num(0.2, 1), center=self.center(),
                     rotation=self.rotation())
        if kind == 'Spheroid':
            return C('Spheroid', n=self.index(),
                     r=self.seq([self.num(0.2, 1, False) for _ in range(2)]),
                     rotation=self.rotation(), center=self.center())
        if kind == 'JanusSphere_Uniform':
            return C(kind, n=self.seq([1.34, 2.0]), r=self.seq([0.5, 0.51]),
                     rotation=self.rotation(), center=self.center(False))
        if kind == 'JanusSphere_Tapered':
            return C(kind, n=self.seq([1.34, 2.0]), r=self.seq([0.5, 0.51]),
                     rotation=self.rotation(2), center=self.center(False))
        if kind == 'Scatterers':
            return C('Scatterers', scatterers=[
                self.scatterer(depth + 2) for _ in range(r.randint(1, 3))])
        nn = 1.5
        a = C('Sphere', n=nn, r=self.num(0.3, 1, False),
              center=self.center(False))
        bb = C('Sphere', n=nn, r=self.num(0.3, 1, False),
               center=self.center(False))
        return C(kind, s1=a, s2=bb)

    def far_sphere(self, j):
        s = self.sphere(layered=False)
        s['kw']['center'] = self.seq([10.0 * j, self.num(-1, 1, False), 5.0])
        if isinstance(s['kw']['r'], dict) and 'cls' in s['kw']['r']:
            pass
        return s

    def theory(self, depth=0):
        r = self.rng
        kind = r.choice(['Mie', 'Mie', 'MieLens', 'AberratedMieLens',
                         'Multisphere', 'Tmatrix', 'Lens'])
        if kind == 'Mie':
            kw = {}
            if r.random() < 0.6:
                kw = {'compute_escat_radial': r.random() < 0.5,
                      'full_radial_dependence': r.random() < 0.5}
            if r.random() < 0.3:
                kw['eps1'] = rfloat(r, 1e-3, 1e-1, 5)
            return C('Mie', **kw)
        if kind == 'MieLens':
            kw = {'lens_angle': r.choice([self.num(0.3, 1.2), self.prior()])}
            if r.random() < 0.5:
                kw['calculator_accuracy_kwargs'] = {'dict': [
                    ['quad_npts', r.choice([60, 100])],
                    ['interpolate_integrals', r.choice([True, False,
                                                        'check'])]]}
            return C('MieLens', **kw)
        if kind == 'AberratedMieLens':
            return C('AberratedMieLens',
                     spherical_aberration=r.choice([
                         0.0, self.num(-2, 2), self.prior(),
                         self.seq([rfloat(r, -1, 1, 3), 0.2])]),
                     lens_angle=self.num(0.3, 1.2))
        if kind == 'Multisphere':
            kw = {}
            if r.random() < 0.7:
                kw = {'niter': r.choice([100, 200]),
                      'eps': r.choice([1e-6, 1e-5]), 'meth': r.choice([0, 1]),
                      'compute_escat_radial': r.random() < 0.5}
            return C('Multisphere', **kw)
        if kind == 'Tmatrix':
            return C('Tmatrix')
        inner = C('Mie') if r.random() < 0.6 else C('Tmatrix')
        return C('Lens', lens_angle=self.num(0.3, 1.2), theory=inner,
                 quad_npts_theta=r.choice([10, 20, 100]),
                 quad_npts_phi=r.choice([10, 20, 100]))

    def strategy(self):
        r = self.rng
        kind = r.choice(['NmpfitStrategy', 'LeastSquaresScipyStrategy',
                         'EmceeStrategy', 'TemperedStrategy', 'CmaStrategy'])
        if kind == 'NmpfitStrategy':
            kw = {}
            if r.random() < 0.7:
                kw = {'npixels': r.choice([None, 100]),
                      'ftol': r.choice([1e-10, 1e-8]),
                      'maxiter': r.choice([100, 20]),
                      'seed': r.choice([None, 3])}
            return C(kind, **kw)
        if kind == 'LeastSquaresScipyStrategy':
            kw = {}
            if r.random() < 0.7:
                kw = {'ftol': r.choice([1e-10, 1e-8]),
                      'max_nfev': r.choice([None, 50]),
                      'npixels': r.choice([None, 100])}
            return C(kind, **kw)
        if kind == 'EmceeStrategy':
            return C(kind, nwalkers=r.choice([100, 20]),
                     nsamples=r.choice([None, 50]),
                     npixels=r.choice([None, 100]),
                     parallel=r.choice([None, 'auto', 2]),
                     seed=r.choice([None, 5]))
        if kind == 'TemperedStrategy':
            return C(kind, nwalkers=r.choice([100, 20]), nsamples=50,
                     npixels=200, parallel=None, stages=r.choice([2, 3]),
                     stage_len=r.choice([10, 30]), seed=r.choice([None, 5]))
        return C(kind, npixels=r.choice([None, 100]),
                 popsize=r.choice([None, 10]),
                 resample_pixels=r.random() < 0.5, parallel=None,
                 seed=r.choice([None, 5]))

    def model(self):
        r = self.rng
        kind = r.choice(['AlphaModel', 'AlphaModel', 'ExactModel'])
        many = r.random() < 0.4
        if many:
            sc = C('Spheres', scatterers=[
                self.far_sphere(j) for j in range(r.randint(2, 3))],
                warn=False)
            for s in sc['kw']['scatterers']:
                s['kw']['r'] = C('Uniform', lower_bound=0.3, upper_bound=0.8)
        else:
            sc = self.sphere(layered=False)
            sc['kw']['center'] = self.seq([
                r.choice([1.0, C('Uniform', lower_bound=0, upper_bound=2)]),
                2.0, C('Gaussian', mu=10.0, sd=1.0)])
            if not (isinstance(sc['kw']['r'], dict) and
                    'cls' in sc['kw']['r']):
                sc['kw']['r'] = C('Uniform', lower_bound=0.3,
                                  upper_bound=0.8, name='r')
        kw = {'scatterer': sc,
              'medium_index': r.choice([1.33, self.prior()]),
              'illum_wavelen': r.choice([0.66, 0.405]),
              'illum_polarization': self.seq([1, 0]),
              'noise_sd': r.choice([None, 0.1, self.prior()])}
        if kind == 'AlphaModel':
            kw['alpha'] = r.choice([0.8, 1, C('Uniform', lower_bound=0.5,
                                              upper_bound=1.0,
                                              name='alpha')])
        elif r.random() < 0.5:
            kw['calc_func'] = {'func': r.choice(['calc_holo',
                                                 'calc_intensity'])}
        c = r.random()
        if not many and c < 0.35:
            kw['theory'] = C('MieLens', lens_angle=r.choice([
                0.9, C('Uniform', lower_bound=0.5, upper_bound=1.2,
                       name='lens_angle')]))
        elif many and c < 0.3:
            kw['theory'] = C('Multisphere')
        if many and r.random() < 0.5:
            kw['constraints'] = [C('LimitOverlaps',
                                   fraction=r.choice([0.1, 0.05]))]
        if r.random() < 0.15 and not many:
            # per-channel optics
            kw['illum_wavelen'] = {'dict': [['red', 0.66], ['green', 0.52]]}
            kw['noise_sd'] = {'dict': [['red', 0.1], ['green', 0.05]]}
        spec = C(kind, **kw)
        if many and r.random() < 0.6:
            spec['ties'] = [{'suffix': ':r',
                             'new_name': r.choice([None, 'r_all'])}]
        return spec

    # arguments that accept an explicit None at construction although their
    # default is something else (what must then survive save -> load)
    NONEABLE = {
        'Mie': ['compute_escat_radial', 'full_radial_dependence', 'eps1'],
        'Multisphere': ['compute_escat_radial', 'suppress_fortran_output',
                        'niter', 'eps', 'meth', 'qeps1'],
        'MieLens': ['calculator_accuracy_kwargs', 'lens_angle'],
        'AberratedMieLens': ['spherical_aberration',
                             'calculator_accuracy_kwargs'],
        'NmpfitStrategy': ['quiet', 'ftol', 'maxiter', 'damp'],
        'LeastSquaresScipyStrategy': ['ftol', 'xtol'],
        'EmceeStrategy': ['parallel', 'nwalkers'],
        'CmaStrategy': ['parallel', 'resample_pixels', 'parent_fraction'],
        'Spheres': ['warn'],
        'LimitOverlaps': ['fraction'],
    }

    def sprinkle_none(self, spec):
        r = self.rng
        names = self.NONEABLE.get(spec.get('cls'))
        if names and r.random() < 0.25:
            spec['kw'][r.choice(names)] = None
        return spec

    def any(self):
        spec, kind = self._any()
        if isinstance(spec, dict) and 'cls' in spec:
            spec = self.sprinkle_none(spec)
        return spec, kind

    def _any(self):
        r = self.rng
        c = r.random()
        if c < 0.4:
            return self.scatterer(), 'scatterer'
        if c < 0.55:
            return self.theory(), 'theory'
        if c < 0.7:
            p = self.prior()
            return p, 'prior'
        if c < 0.8:
            return self.strategy(), 'strategy'
        if c < 0.95:
            return self.model(), 'model'
        return C('LimitOverlaps', fraction=rfloat(r, 0.01, 0.5, 3)), 'other'


class C15:
    ID = 'C15'
    TITLE = 'HoloPy objects survive save -> load unchanged'
    TIERS = {'quick': {'budget_s': 60.0}}

    def generate_sweep(self, rng, tier):
        """Exhaustive single-fault placement for one object: every fault kind
        at every tracked call index of a save, and of a load of an
        acknowledged file."""
        b = Builder(rng)
        g = SpecGen(rng)
        spec, kind = g.any()
        spec = _fix_exprs(spec)
        nidx = 7
        n = 0
        obj = None
        for phase in ('save', 'load'):
            for fk in (1, 2, 3, 4, 5):
                if phase == 'load' and fk == 5:
                    continue
                for idx in range(nidx):
                    if obj is None:
                        obj = b.emit('build', {'spec': spec}, store='obj',
                                     tags={'k': 'build/' + kind,
                                           'kind': kind, 'plain': False})
                    n += 1
                    path = 'sweep_%d.yaml' % n
                    if phase == 'save':
                        b.emit('arm_io_fault', {'kind': fk, 'index': idx,
                                                'err': rng.choice(ERRNOS)})
                        b.emit('save_path', {'obj': obj, 'path': path},
                               tags={'k': 'save', 'save': True,
                                     'kind': kind})
                        b.emit('load_path', {'path': path},
                               tags={'k': 'load', 'load': True,
                                     'kind': kind})
                    else:
                        b.emit('save_path', {'obj': obj, 'path': path},
                               tags={'k': 'save', 'save': True,
                                     'kind': kind})
                        b.emit('arm_io_fault', {'kind': fk, 'index': idx,
                                                'err': rng.choice([5, 13,
                                                                   24])})
                        b.emit('load_path', {'path': path},
                               tags={'k': 'load', 'load': True,
                                     'kind': kind})
                        b.emit('load_path', {'path': path},
                               tags={'k': 'load', 'load': True,
                                     'kind': kind, 'again': True})
                    if fk in (4, 5):
                        # the node may have died: the object table is gone
                        obj = None
        return {'config': {'faults': {'io': True}, 'mode': 'fault-sweep',
                           'node': {}}, 'events': b.events}

    def generate(self, rng, tier='quick'):
        if rng.random() < (0.04 if tier == 'quick' else 0.3):
            return self.generate_sweep(rng, tier)
        b = Builder(rng)
        faulty = rng.random() < 0.45
        faults = {'F1': rng.random() < 0.5, 'io': faulty,
                  'F11': rng.random() < 0.5}
        g = SpecGen(rng, containers=rng.random() < 0.8,
                    npscalars=rng.random() < 0.7)
        npath = 0
        paths = []
        for _ in range(rng.randint(1, 4)):
            if rng.random() < 0.15:
                # a process-global numpy print option the user prefers
                b.emit('env_option', {'kind': 'np_print', 'value': rng.choice([
                    {'legacy': '1.13'}, {'legacy': '1.13'}, {'precision': 4},
                    {'legacy': False},
                    {'legacy': '1.25'}, {'floatmode': 'fixed'},
                    {'suppress': True}])}, tags={'k': 'env'})
            g.plain_only = rng.random() < 0.35
            spec, kind = g.any()
            spec = _fix_exprs(spec)
            obj = b.emit('build', {'spec': spec}, store='obj',
                         tags={'k': 'build/' + kind, 'kind': kind,
                               'plain': g.plain_only})
            cycles = rng.randint(1, 3)
            cur = obj
            for cyc in range(cycles):
                target = rng.choice(['path', 'path', 'stream'])
                if target == 'path':
                    if paths and rng.random() < 0.25:
                        path = rng.choice(paths)          # overwrite
                    else:
                        npath += 1
                        path = 'obj_%d.yaml' % npath
                        paths.append(path)
                    if faulty and rng.random() < 0.5:
                        b.emit('arm_io_fault', {
                            'kind': rng.choice([1, 1, 2, 3, 4, 5]),
                            'index': rng.randint(0, 6),
                            'err': rng.choice(ERRNOS)})
                    b.emit('save_path', {'obj': cur, 'path': path},
                           tags={'k': 'save', 'save': True, 'kind': kind})
                    if faults['F1'] and rng.random() < 0.5:
                        b.restart()
                    if faulty and rng.random() < 0.35:
                        b.emit('arm_io_fault', {
                            'kind': rng.choice([1, 2, 2, 3, 4]),
                            'index': rng.randint(0, 5),
                            'err': rng.choice([5, 13, 24])})
                    cur = b.emit('load_path', {'path': path}, store='obj',
                                 tags={'k': 'load', 'load': True,
                                       'kind': kind})
                    if rng.random() < 0.3:
                        b.emit('load_path', {'path': path},
                               tags={'k': 'load', 'load': True,
                                     'kind': kind, 'again': True})
                else:
                    sk = 'bytesio'
                    args = {'obj': cur, 'kind': 'bytesio'}
                    if faults['F11']:
                        sk = rng.choice(['bytesio', 'file',
                                         'buffered_failing'])
                        args = {'obj': cur, 'kind': sk,
                                'n': rng.randint(0, 6),
                                'bufsize': rng.choice([8, 16, 64])}
                    blob = b.emit('save_stream', args, store='blob',
                                  tags={'k': 'save-stream', 'ssave': True,
                                        'kind': kind})
                    lk = rng.choice(['bytesio', 'shortread',
                                     'buffered_shortread',
                                     'nonseekable']) if faults['F11'] \
                        else 'bytesio'
                    cur = b.emit('load_stream', {
                        'blob': blob, 'kind': lk, 'k': rng.choice([1, 7, 64])},
                        store='obj', tags={'k': 'load-stream', 'sload': True,
                                           'kind': kind})
            if rng.random() < 0.6:
                b.emit('obj_equal', {'a': obj, 'b': cur},
                       tags={'k': 'equal', 'eq': True})
        return {'config': {'faults': faults, 'node': {}}, 'events': b.events}

    # -------------------------------------------------------------- oracle
    def oracle(self, ex):
        fs = {}        # path -> {'ack': snapshot or None, 'maybe': [snaps]}
        armed_next = None
        for ev in ex.run['events']:
            if ev.get('op') == 'RESTART':
                armed_next = None
                continue
            if ev.get('op') == 'arm_io_fault':
                r0 = ex.records.get(ev['id'])
                if r0 and r0['outcome'] == 'ok':
                    armed_next = ev['args']
                continue
            rec = ex.records.get(ev.get('id'))
            if not rec or rec['outcome'] == 'skip':
                continue
            if ev.get('op') in ('save_path', 'load_path'):
                armed_now, armed_next = armed_next, None
            else:
                armed_now = None
            tags = ev.get('tags', {})
            extra = rec.get('extra') or {}
            fired = bool(extra.get('fired'))
            if rec['outcome'] == 'died' and armed_now and \
                    armed_now['kind'] in (4, 5) and \
                    rec.get('status') == ('exit', 77):
                fired = True         # the armed crash fault is what killed it
                extra = {'armed': [armed_now['kind']]}
            if fired:
                ex.fault('io-%s' % _fault_name(extra.get('armed')), 1)
            if tags.get('k', '').startswith('build/') and \
                    rec['outcome'] == 'exc':
                # the generator promises valid arguments
                ex.add(violation(
                    'C15.construct', ev['id'],
                    'constructing %s raised %s: %s' % (
                        tags['kind'], rec['exc'], rec['msg'][:100]),
                    sig='C15.construct:' + rec['exc']))
                continue
            if tags.get('save'):
                path = ev['args']['path']
                st = fs.setdefault(path, {'ack': None, 'maybe': []})
                ex.stats['oracle_sim'] += 1
                if rec['outcome'] == 'ok':
                    snap = _d(rec['payload'])['snapshot']
                    st['ack'] = snap
                    st['maybe'] = []
                elif rec['outcome'] in ('exc', 'died'):
                    if not fired and rec['outcome'] == 'exc':
                        ex.add(violation(
                            'C15.save', ev['id'],
                            'saving a %s raised %s: %s' % (
                                tags['kind'], rec['exc'], rec['msg'][:120]),
                            sig='C15.save:%s:%s' % (tags['kind'],
                                                    rec['exc'])))
                    elif not fired and rec['outcome'] == 'died':
                        ex.add(violation(
                            'C15.save', ev['id'],
                            'the interpreter died while saving a %s'
                            % tags['kind'], sig='C15.save:died'))
                    # unacknowledged: the file may hold old, new or garbage
                    new = extra.get('snapshot', 'unknown')
                    st['maybe'] = [s_ for s_ in (st['ack'], new)
                                   if s_ is not None] + list(st['maybe'])
                    st['ack'] = None
            elif tags.get('load'):
                path = ev['args']['path']
                st = fs.get(path)
                if st is None:
                    continue
                ex.stats['oracle_sim'] += 1
                self._check_load(ex, ev, rec, st, fired, tags)
            elif tags.get('ssave'):
                ex.stats['oracle_sim'] += 1
                if rec['outcome'] == 'exc':
                    writes = extra.get('writes')
                    hostile = ev['args'].get('kind') == 'buffered_failing'
                    if not (hostile and rec['exc'] == 'OSError'):
                        ex.add(violation(
                            'C15.save', ev['id'],
                            'saving a %s to a stream raised %s: %s' % (
                                tags['kind'], rec['exc'], rec['msg'][:120]),
                            sig='C15.save:stream:%s:%s' % (tags['kind'],
                                                           rec['exc'])))
                    else:
                        ex.fault('F11-stream-write-error', 1)
            elif tags.get('sload'):
                ex.stats['oracle_sim'] += 1
                src = ex.records.get(rec['rargs']['blob'].get('ref')) \
                    if rec.get('rargs') else None
                if not src or src['outcome'] != 'ok':
                    continue
                snap = _d(src['payload'])['snapshot']
                if ev['args'].get('kind') != 'bytesio':
                    ex.fault('F11-stream-' + ev['args']['kind'], 1)
                if rec['outcome'] != 'ok':
                    ex.add(violation(
                        'C15.load', ev['id'],
                        'loading a %s from a %s stream raised %s: %s' % (
                            tags['kind'], ev['args'].get('kind'),
                            rec['exc'], rec['msg'][:120]),
                        sig='C15.load:stream:%s:%s' % (tags['kind'],
                                                       rec['exc'])))
                    continue
                self._compare(ex, ev, snap, _d(rec['payload']), tags)
            elif tags.get('eq') and rec['outcome'] == 'ok':
                self._check_eq(ex, ev, rec)

    def _check_load(self, ex, ev, rec, st, fired, tags):
        if rec['outcome'] in ('exc', 'died'):
            if fired:
                return                    # a faulted load may fail
            if st['ack'] is None:
                return                    # nothing acknowledged at the path
            if rec['outcome'] == 'died':
                ex.add(violation('C15.load', ev['id'],
                                 'the interpreter died while loading a %s'
                                 % tags['kind'], sig='C15.load:died'))
                return
            ex.add(violation(
                'C15.load', ev['id'],
                'loading an acknowledged %s raised %s: %s' % (
                    tags['kind'], rec['exc'], rec['msg'][:140]),
                sig='C15.load:%s:%s' % (tags['kind'], rec['exc'])))
            return
        got = _d(rec['payload'])
        if st['ack'] is not None:
            self._compare(ex, ev, st['ack'], got, tags)
            return
        # unacknowledged path: the file may hold the last acknowledged
        # object or the one a failed save was writing; anything else must
        # have raised (a load never returns a different object silently)
        if 'unknown' in st['maybe'] or not st['maybe']:
            return
        want = [canon.digest(_d(s_).get('describe')) for s_ in st['maybe']]
        gd = got.get('describe')
        is_obj = isinstance(gd, dict) and '__dict__' in gd and \
            'cls' in dict(gd['__dict__'])
        # what a *failed* save leaves behind is outside the property; only a
        # fully formed but different HoloPy object would be a silent lie
        if is_obj and canon.digest(gd) not in want:
            ex.add(violation(
                'C15.torn', ev['id'],
                'after a failed save the path loads, without any error, to '
                'an object that is neither the last acknowledged one nor the '
                'one being written (%s)' % tags['kind'],
                sig='C15.torn:' + tags['kind']))

    def _compare(self, ex, ev, snap, got, tags):
        snap = _d(snap) if not isinstance(snap, dict) or \
            '__dict__' in snap else snap
        a = snap.get('describe')
        bb = got.get('describe')
        if canon.digest(a) != canon.digest(bb):
            ex.add(violation(
                'C15.roundtrip', ev['id'],
                'loaded %s differs from the saved one: %s' % (
                    tags['kind'], (canon.diff(a, bb) or '')[:200]),
                sig='C15.roundtrip:%s:%s' % (tags['kind'],
                                             _diffkey(canon.diff(a, bb)))))
            return
        ya, yb = snap.get('yaml'), got.get('yaml')
        if ya is not None and yb is not None and ya != yb:
            ex.add(violation(
                'C15.text', ev['id'],
                'saving the reloaded %s does not reproduce the text: %r vs '
                '%r' % (tags['kind'], _firstdiff(ya, yb), ''),
                sig='C15.text:' + tags['kind']))

    def _origin(self, ex, ref, depth=0):
        """Id of the build event a loaded object descends from."""
        if depth > 8:
            return None
        ev = ex.events_by_id.get(ref)
        rec = ex.records.get(ref)
        if ev is None or rec is None or rec.get('outcome') != 'ok':
            return None
        if ev['op'] == 'build':
            return ref
        if ev['op'] == 'load_stream':
            src = rec['rargs']['blob'].get('ref')
            srec = ex.records.get(src)
            if not srec or srec.get('outcome') != 'ok':
                return None
            return self._origin(ex, srec['rargs']['obj'].get('ref'),
                                depth + 1)
        if ev['op'] == 'load_path':
            last = None
            for e in ex.run['events']:
                if e.get('id') == ref:
                    break
                if e.get('op') == 'save_path' and \
                        e['args']['path'] == ev['args']['path']:
                    r = ex.records.get(e['id'])
                    last = e if r and r.get('outcome') == 'ok' else None
            if last is None:
                return None
            return self._origin(
                ex, ex.records[last['id']]['rargs']['obj'].get('ref'),
                depth + 1)
        return None

    def _check_eq(self, ex, ev, rec):
        a = ex.events_by_id.get(rec['rargs']['a'].get('ref'))
        if a is None or not a.get('tags', {}).get('plain'):
            return
        bref = rec['rargs']['b'].get('ref')
        brec = ex.records.get(bref)
        bev = ex.events_by_id.get(bref)
        if bev is None or not (bev.get('tags', {}).get('load') or
                               bev.get('tags', {}).get('sload')):
            return
        if self._origin(ex, bref) != a['id']:
            return
        # only meaningful if b was loaded from a save of a
        p = _d(rec['payload'])
        ex.stats['oracle_sampled'] += 1
        arec = ex.records.get(a['id'])
        if not arec or not brec or 'payload' not in brec:
            return
        from sim import canon as cn
        try:
            da = None
        except Exception:
            return
        if not p['eq'] or not p['eq_rev']:
            kind = a['tags'].get('kind')
            if kind == 'model':
                return       # models compare maps holding callables
            ex.add(violation(
                'C15.equality', ev['id'],
                'a %s built from lists and scalars is not == to its reloaded '
                'copy' % kind, sig='C15.equality:' + str(kind)))


def _fix_exprs(spec):
    """prior expression leaves {'ctor_spec': C(...)} -> build_obj spec."""
    if isinstance(spec, dict):
        if 'ctor_spec' in spec:
            return _fix_exprs(spec['ctor_spec'])
        return {k: _fix_exprs(v) for k, v in spec.items()}
    if isinstance(spec, list):
        return [_fix_exprs(i) for i in spec]
    return spec


def _d(p):
    if isinstance(p, dict) and '__dict__' in p:
        return {k: (_d(v) if k in ('snapshot',) else v)
                for k, v in p['__dict__']}
    return p


def _fault_name(armed):
    if not armed:
        return 'fault'
    return {1: 'errno', 2: 'short', 3: 'eintr', 4: 'crash',
            5: 'torn-write'}.get(armed[0], 'fault')


def _diffkey(d):
    import re
    if not d:
        return 'digest'
    m = re.sub(r'\[\d+\]', '[]', d.split(':')[0])
    return m[-60:]


def _firstdiff(a, b):
    for i, (x, y) in enumerate(zip(a, b)):
        if x != y:
            return a[max(0, i - 30):i + 30], b[max(0, i - 30):i + 30]
    return a[-30:], b[-30:]


PROP = C15()
