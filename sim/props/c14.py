"""C14 - priors are proper, match their samplers, closed under arithmetic.

[SIM]   randomness behind a seam (holopy.core.prior.random -> SimRandom): the
        arguments of every primitive draw are observed, Uniform/Gaussian
        samples must *be* the primitive's output, every BoundedGaussian value
        must be one of the recorded draws and lie in the support, and under
        adversarial-but-legal draws (tail values in chosen slots for r
        rounds) sample() must return within a bounded number of primitive
        calls once the script ends; derived priors must combine the recorded
        base samples; generate_guess must be reproducible for a seed whatever
        foreign draws preceded it.
[SAMPLED] lnprob = log prob, unit integral, zero outside support, guess in
        support, scale/unscale, identities, rejections.
"""
import math

import numpy as np

from sim import oracles as O
from sim.gen import Builder, rfloat
from sim.runner import violation

EPS = np.finfo(float).eps
RAISING = ('mul0', 'rmul0', 'add_str', 'mul_str', 'mul_list', 'add_none',
           'mul_complex', 'add_dict', 'np_rmul0', 'np_mul0')
NOT_IDENT = ('add_tiny', 'radd_tiny', 'mul_near1', 'div_near1')
IDENT = ('add0', 'radd0', 'sub0', 'mul1', 'rmul1', 'div1', 'add0.0',
         'mul1.0', 'np_radd0', 'np_rmul1', 'np_mul1', 'np_int_rmul1')


def num(x):
    return float(x) if isinstance(x, str) else x


def _fl(x):
    """Python ints (possibly beyond the float range) as floats."""
    if isinstance(x, int) and not isinstance(x, bool):
        try:
            return float(x)
        except OverflowError:
            return math.inf if x > 0 else -math.inf
    return x


def draw_base(rng):
    kind = rng.choice(['uniform', 'uniform', 'gaussian', 'bounded',
                       'bounded'])
    scale = 10.0 ** rng.randint(-6, 6)
    if kind == 'uniform':
        lo = rfloat(rng, -5, 5, 4) * scale
        w = rfloat(rng, 0.01, 5, 4) * scale
        c = rng.random()
        args = {'lo': lo, 'hi': lo + w}
        if c < 0.1:
            args = {'lo': lo, 'hi': 'inf'}
        elif c < 0.2:
            args = {'lo': '-inf', 'hi': lo}
        elif c < 0.5:
            args['guess'] = lo + rfloat(rng, 0, 1, 4) * w
        return {'ctor': 'uniform', 'args': args}
    mu = rfloat(rng, -5, 5, 4) * scale
    sd = rfloat(rng, 0.01, 3, 4) * scale
    if kind == 'gaussian':
        return {'ctor': 'gaussian', 'args': {'mu': mu, 'sd': sd}}
    c = rng.random()
    lo = mu - rfloat(rng, 0.2, 3, 3) * sd
    hi = mu + rfloat(rng, 0.2, 3, 3) * sd
    args = {'mu': mu, 'sd': sd, 'lo': lo, 'hi': hi}
    if c < 0.15:
        args['hi'] = 'inf'
    elif c < 0.3:
        args['lo'] = '-inf'
    return {'ctor': 'bounded_gaussian', 'args': args}


def draw_number(rng):
    return rng.choice([2, 3, -1, 0.5, -2.5, rfloat(rng, 0.1, 9, 3),
                       {'npf': rfloat(rng, 0.1, 9, 3)}])


def draw_expr(rng, leaves, depth):
    """Random operator expression over pool handles and numbers."""
    if depth == 0 or rng.random() < 0.25:
        return rng.choice(leaves)
    fn = rng.choice(['add', 'sub', 'mul', 'div', 'neg', 'pow',
                     'ufunc:exp', 'ufunc:absolute', 'ufunc:square',
                     'ufunc:add', 'ufunc:multiply', 'ufunc:negative',
                     'ufunc:sqrt', 'radd', 'rsub', 'rmul', 'rdiv'])
    a = draw_expr(rng, leaves, depth - 1)
    if fn in ('neg', 'ufunc:exp', 'ufunc:absolute', 'ufunc:square',
              'ufunc:negative', 'ufunc:sqrt'):
        return {'fn': fn, 'args': [a]}
    if fn == 'pow':
        if rng.random() < 0.3:
            return {'fn': 'pow', 'args': [rng.choice([2, 10, 0.5]), a]}
        return {'fn': 'pow', 'args': [a, rng.choice([2, 3])]}
    other = draw_number(rng) if rng.random() < 0.6 else \
        draw_expr(rng, leaves, depth - 1)
    if fn.startswith('r') and fn != 'ufunc:sqrt':
        return {'fn': fn[1:], 'args': [draw_number(rng), a]}
    return {'fn': fn, 'args': [a, other]}


class C14:
    ID = 'C14'
    TITLE = 'Priors are proper, match their samplers, closed under arithmetic'
    TIERS = {'quick': {'budget_s': 45.0}}

    def generate(self, rng, tier='quick'):
        b = Builder(rng)
        f6 = rng.random() < 0.6
        pool = []
        twins = []
        for _ in range(rng.randint(2, 5)):
            spec = draw_base(rng)
            h = b.emit(spec['ctor'], spec['args'], store='pr',
                       tags={'k': spec['ctor']})
            pool.append(h)
            if rng.random() < 0.3:
                # a twin: a separate object with the very same definition
                pool.append(b.emit(spec['ctor'], dict(spec['args']),
                                   store='pr', tags={'k': spec['ctor']}))
                twins.append((h, pool[-1]))
        derived = []
        if rng.random() < 0.3:
            # a whole-number quantity written as Python ints (a count, an
            # exponent), used as an exponent.  Kept out of the general
            # expression pool: exact integer arithmetic on nested powers
            # has no upper bound on its running time.
            m = rng.choice([rng.randint(-6, -1), rng.randint(1, 30), 64, 20])
            kind_ = rng.choice(['uniform', 'gaussian', 'bounded_gaussian'])
            if kind_ == 'uniform':
                a_ = {'lo': m - 5, 'hi': m + 5, 'guess': m}
            elif kind_ == 'gaussian':
                a_ = {'mu': m, 'sd': 1}
            else:
                a_ = {'mu': m, 'sd': 1, 'lo': m - 3, 'hi': m + 6}
            hw = b.emit(kind_, a_, store='ipr', tags={'k': kind_})
            d_ = b.emit('derive', {'expr': {
                'fn': 'pow', 'args': [rng.choice([10, 2]), hw]}},
                store='dpr', tags={'k': 'derive'})
            b.emit('prior_info', {'pr': d_},
                   tags={'k': 'guess-derived', 'info': True})
            b.emit('prior_sample', {'pr': d_, 'size': rng.choice([None, 3]),
                                    'script': None,
                                    'seed': rng.randrange(2 ** 31)},
                   tags={'k': 'sample-derived', 'sample': True,
                         'timeout_violation': 'C14.sample'})
        for x_, y_ in twins:
            # two equal-looking but separate random variables combined
            h = b.emit('derive', {'expr': {
                'fn': rng.choice(['ufunc:add', 'ufunc:multiply', 'add',
                                  'sub', 'mul']),
                'args': [x_, y_]}}, store='dpr', tags={'k': 'derive'})
            derived.append(h)
            b.emit('prior_sample', {'pr': h, 'size': rng.choice([None, 3]),
                                    'script': None,
                                    'seed': rng.randrange(2 ** 31)},
                   tags={'k': 'sample-derived', 'sample': True,
                         'timeout_violation': 'C14.sample'})
        for _ in range(rng.randint(8, 28)):
            c = rng.random()
            if c < 0.3:
                pr = rng.choice(pool)
                size = rng.choice([None, 1, rng.randint(2, 9),
                                   [2, 3], [1, 4]])
                script = None
                if f6 and rng.random() < 0.05:
                    # a very long run of legal-but-unlucky draws: every slot
                    # rejected for r rounds (rejection loops with round
                    # limits or fallbacks live here)
                    script = [{'slots': 'all', 'mode': rng.choice(
                        ['below', 'above', 'far']),
                        'repeat': rng.choice([300, 1001, 1500, 2500])}]
                elif f6 and rng.random() < 0.6:
                    script = []
                    for _ in range(rng.randint(1, 8)):
                        script.append({
                            'slots': rng.choice([[0], [0], [0, 1], [1],
                                                 [0, 1, 2, 3, 4, 5, 6, 7, 8]]),
                            'mode': rng.choice(['below', 'above', 'lower',
                                                'upper', 'far'])})
                b.emit('prior_sample', {'pr': pr, 'size': size,
                                        'script': script,
                                        'seed': rng.randrange(2 ** 31)},
                       tags={'k': 'sample', 'sample': True,
                             'timeout_violation': 'C14.sample'})
            elif c < 0.42:
                leaves = pool + derived[-3:]
                e = draw_expr(rng, leaves, rng.randint(1, 3))
                if isinstance(e, dict) and 'fn' in e:
                    h = b.emit('derive', {'expr': e}, store='dpr',
                               tags={'k': 'derive'})
                    derived.append(h)
            elif c < 0.55 and derived:
                pr = rng.choice(derived)
                size = rng.choice([None, 1, rng.randint(2, 6)])
                b.emit('prior_sample', {'pr': pr, 'size': size,
                                        'script': None,
                                        'seed': rng.randrange(2 ** 31)},
                       tags={'k': 'sample-derived', 'sample': True,
                         'timeout_violation': 'C14.sample'})
                if rng.random() < 0.5:
                    b.emit('prior_info', {'pr': pr},
                           tags={'k': 'guess-derived', 'info': True})
            elif c < 0.7:
                pr = rng.choice(pool)
                b.emit('prior_eval', {'pr': pr, 'xs': 'AUTO',
                                      'seed': rng.randrange(2 ** 31)},
                       tags={'k': 'eval', 'eval': True})
            elif c < 0.8:
                pr = rng.choice(pool)
                b.emit('prior_info', {'pr': pr, 'xs': [
                    rfloat(rng, -1e3, 1e3, 5) for _ in range(4)]},
                    tags={'k': 'info', 'info': True})
            elif c < 0.88:
                pr = rng.choice(pool + derived[-2:])
                b.emit('prior_identity',
                       {'pr': pr, 'kind': rng.choice(IDENT + RAISING +
                                                    NOT_IDENT)},
                       tags={'k': 'identity', 'identity': True})
            elif c < 0.94:
                prs = [rng.choice(pool) for _ in range(rng.randint(1, 4))]
                seed = rng.choice([None, 7, rng.randrange(10 ** 6)])
                if f6:
                    b.emit('rng_draws', {'k': rng.randint(1, 30)})
                b.emit('generate_guess', {
                    'prs': prs, 'nguess': rng.randint(1, 6),
                    'scaling': rng.choice([1, 0.5, 2.0]), 'seed': seed},
                    tags={'k': 'generate_guess', 'gg': True,
                          'timeout_violation': 'C14.sample',
                          'ref': seed is not None,
                          'rng_dependent': seed is None, 'rng_state': True})
            else:
                bad = rng.choice([
                    ('uniform', {'lo': 2.0, 'hi': 1.0}),
                    ('uniform', {'lo': 1.0, 'hi': 1.0}),
                    ('uniform', {'lo': 0.0, 'hi': 1.0, 'guess': 2.0}),
                    ('uniform', {'lo': 0.0, 'hi': 1.0, 'guess': -0.5}),
                    ('gaussian', {'mu': 0.0, 'sd': 0.0}),
                    ('gaussian', {'mu': 1.0, 'sd': -1.0}),
                    ('bounded_gaussian', {'mu': 5.0, 'sd': 1.0, 'lo': 0.0,
                                          'hi': 1.0}),
                    ('bounded_gaussian', {'mu': -5.0, 'sd': 1.0, 'lo': 0.0,
                                          'hi': 1.0}),
                    ('bounded_gaussian', {'mu': 1.0, 'sd': 1.0, 'lo': 1.0,
                                          'hi': 1.0}),
                    ('bounded_gaussian', {'mu': 0.5, 'sd': -1.0, 'lo': 0.0,
                                          'hi': 1.0}),
                    # not-a-number bounds and widths make no sense either
                    ('uniform', {'lo': 'nan', 'hi': 1.0}),
                    ('uniform', {'lo': 0.0, 'hi': 'nan'}),
                    ('gaussian', {'mu': 0.0, 'sd': 'nan'}),
                    ('bounded_gaussian', {'mu': 0.5, 'sd': 1.0, 'lo': 'nan',
                                          'hi': 1.0}),
                    ('bounded_gaussian', {'mu': 0.5, 'sd': 1.0, 'lo': 0.0,
                                          'hi': 'nan'}),
                ])
                b.emit(bad[0], bad[1], tags={'k': 'reject', 'reject': True})
        # fill script values and evaluation points now that pool specs exist
        specs = {e['id']: e for e in b.events if e.get('store') == 'pr'}
        for e in b.events:
            if e['op'] == 'prior_sample' and e['args'].get('script'):
                self._fill_script(rng, b, e)
            if e['op'] == 'prior_eval':
                self._fill_xs(rng, b, e)
        return {'config': {'faults': {'F6': f6}, 'node': {}},
                'events': b.events}

    # helpers: the generator's handles are exact before minimisation, so
    # {'h':'pr','i':k} is the k-th 'pr' constructor event
    def _spec_of(self, b, h):
        if not (isinstance(h, dict) and h.get('h') == 'pr'):
            return None
        ctors = [e for e in b.events if e.get('store') == 'pr']
        return ctors[h['i']]

    def _fill_script(self, rng, b, e):
        spec = self._spec_of(b, e['args']['pr'])
        if spec is None:
            e['args']['script'] = None
            return
        a = spec['args']
        if spec['op'] == 'uniform':
            lo, hi = num(a['lo']), num(a['hi'])
            for s in e['args']['script']:
                s['kind'] = 'uniform'
                # legal uniform variates only: inside [lo, hi]
                if math.isinf(lo) or math.isinf(hi):
                    s['value'] = lo if math.isfinite(lo) else hi
                else:
                    s['value'] = {'lower': lo, 'upper': hi}.get(
                        s['mode'], lo + rng.random() * (hi - lo))
            return
        mu, sd = a['mu'], a['sd']
        lo = num(a.get('lo', '-inf'))
        hi = num(a.get('hi', 'inf'))
        for s in e['args']['script']:
            s['kind'] = 'normal'
            m = s['mode']
            if m == 'below':
                s['value'] = (lo - rfloat(rng, 0.01, 2, 3) * sd) \
                    if math.isfinite(lo) else mu - 9 * sd
            elif m == 'above':
                s['value'] = (hi + rfloat(rng, 0.01, 2, 3) * sd) \
                    if math.isfinite(hi) else mu + 9 * sd
            elif m == 'lower':
                s['value'] = lo if math.isfinite(lo) else mu
            elif m == 'upper':
                s['value'] = hi if math.isfinite(hi) else mu
            else:
                s['value'] = mu + rng.choice([-1, 1]) * 30 * sd

    def _fill_xs(self, rng, b, e):
        spec = self._spec_of(b, e['args']['pr'])
        e['args'].pop('seed', None)
        if spec is None:
            e['args']['xs'] = [0.0]
            return
        a = spec['args']
        if spec['op'] == 'uniform':
            lo, hi = num(a['lo']), num(a['hi'])
            flo = lo if math.isfinite(lo) else hi - 10 * max(1, abs(hi))
            fhi = hi if math.isfinite(hi) else lo + 10 * max(1, abs(lo))
            w = fhi - flo
            xs = [flo, fhi, flo - 0.1 * w, fhi + 0.1 * w,
                  flo - 1e-9 * max(abs(flo), w), fhi + 1e-9 * max(abs(fhi), w)]
            xs += [flo + rng.random() * w for _ in range(6)]
        else:
            mu, sd = a['mu'], a['sd']
            lo = num(a.get('lo', '-inf'))
            hi = num(a.get('hi', 'inf'))
            xs = [mu, mu + sd, mu - 3 * sd, mu + 8 * sd]
            xs += [mu + rng.gauss(0, 2) * sd for _ in range(6)]
            for v in (lo, hi):
                if math.isfinite(v):
                    xs += [v, v - 1e-9 * max(abs(v), sd),
                           v + 1e-9 * max(abs(v), sd)]
            # quadrature grid for the unit-integral check (plain Gaussian)
            if spec['op'] == 'gaussian':
                e['args']['xs'] = xs
                e['tags']['ngrid'] = 801
                e['args']['xs'] = xs + [mu - 10 * sd + 20 * sd * i / 800
                                        for i in range(801)]
                return
        e['args']['xs'] = xs

    # -------------------------------------------------------------- oracle
    def oracle(self, ex):
        for ev in ex.run['events']:
            rec = ex.records.get(ev.get('id'))
            if not rec or rec['outcome'] in ('skip', 'died'):
                continue
            tags = ev.get('tags', {})
            if tags.get('reject'):
                ex.stats['oracle_sampled'] += 1
                if rec['outcome'] != 'exc' or \
                        rec['exc'] != 'ParameterSpecificationError':
                    ex.add(violation(
                        'C14.reject', ev['id'],
                        '%s%r was not rejected (%s %s)' % (
                            ev['op'], ev['args'], rec['outcome'],
                            rec.get('exc')), sig='C14.reject:' + ev['op']))
            elif tags.get('sample'):
                self._check_sample(ex, ev, rec)
            elif tags.get('eval'):
                self._check_eval(ex, ev, rec)
            elif tags.get('info'):
                self._check_info(ex, ev, rec)
            elif tags.get('identity'):
                self._check_identity(ex, ev, rec)
            elif tags.get('gg'):
                self._check_gg(ex, ev, rec)

    # expression tree with leaves resolved to base prior specs
    def tree(self, ex, e, depth=0):
        if depth > 12:
            return None
        if isinstance(e, dict) and 'ref' in e:
            ev = ex.events_by_id.get(e['ref'])
            if ev is None:
                return None
            if ev['op'] in ('uniform', 'gaussian', 'bounded_gaussian'):
                r = ex.records.get(ev['id'])
                if not r or r['outcome'] != 'ok':
                    return None
                return {'base': ev['op'], 'args': ev['args'], 'id': ev['id']}
            if ev['op'] == 'derive':
                r = ex.records.get(ev['id'])
                if not r or r['outcome'] != 'ok':
                    return None
                return self.tree(ex, r['rargs']['expr'], depth + 1)
            return None
        if isinstance(e, dict) and 'fn' in e:
            args = [self.tree(ex, a, depth + 1) for a in e['args']]
            if any(a is None for a in args):
                return None
            return self._simplify({'fn': e['fn'], 'args': args})
        if isinstance(e, dict) and 'npf' in e:
            return {'num': float(e['npf'])}
        if isinstance(e, (int, float)):
            return {'num': e}
        return None

    @staticmethod
    def _simplify(t):
        """Mirror the documented identities: p+0, p*1 return p itself."""
        fn, a = t['fn'], t['args']

        def isnum(x, v=None):
            return 'num' in x and (v is None or x['num'] == v)
        if all(isnum(x) for x in a):
            return t
        return t

    def _check_sample(self, ex, ev, rec):
        ra = rec['rargs']
        t = self.tree(ex, ra['pr'])
        if t is None:
            return
        size = ra.get('size')
        calls = (rec.get('extra') or {}).get('calls', [])
        nscript = sum(int(s_.get('repeat', 1))
                      for s_ in (ra.get('script') or []))
        ex.stats['oracle_sim'] += 1
        consumed = nscript - int((rec.get('extra') or {}).get(
            'script_left', nscript))
        ex.fault('F6-adversarial-variate-script-steps', max(0, consumed))
        what = t.get('base', 'derived')
        if rec['outcome'] == 'exc' and rec['exc'] == 'SimLiveness':
            ex.add(violation(
                'C14.sample', ev['id'],
                '%s.sample(size=%r) had not returned after %s (script of %d '
                'steps)' % (what, size, rec['msg'], nscript),
                sig='C14.sample:liveness:' + what))
            return
        if rec['outcome'] == 'exc' and 'base' not in t and \
                rec['exc'] in ('ZeroDivisionError', 'OverflowError'):
            return      # degenerate arithmetic on scalar draws (x / 0.0)
        if rec['outcome'] == 'exc':
            if self._may_raise(t):
                return
            ex.add(violation(
                'C14.sample', ev['id'],
                '%s.sample(size=%r) raised %s: %s' % (
                    what, size, rec['exc'], rec['msg'][:100]),
                sig='C14.sample:exc:%s:%s' % (what, rec['exc'])))
            return
        got = rec['payload']
        garr = np.asarray(got['v'] if isinstance(got, dict) and
                          '__npscalar__' in got else got)
        want_shape = () if size is None else (
            tuple(size) if isinstance(size, list) else (size,))
        if 'base' in t:
            if garr.shape != want_shape:
                ex.add(violation(
                    'C14.sample', ev['id'],
                    '%s.sample(size=%r) has shape %s' % (what, size,
                                                         garr.shape),
                    sig='C14.sample:shape:' + what))
                return
            a = t['args']
            if t['base'] == 'uniform':
                params, kind = [num(a['lo']), num(a['hi'])], 'uniform'
            else:
                params, kind = [a['mu'], a['sd']], 'normal'
            declared = all(c['kind'] == kind and
                           c['params'] == [float(p) for p in params]
                           for c in calls)
            if not calls:
                # the library drew through something the seam does not see:
                # observed nothing, judge nothing
                xc = ex.stats.setdefault('extra', {})
                xc['sample_unobserved'] = xc.get('sample_unobserved', 0) + 1
                return
            if t['base'] in ('uniform', 'gaussian'):
                # the sample must be the (affinely mapped) primitive draw:
                # a draw from uniform(a, b) / normal(m, s) maps onto the
                # declared distribution by x -> lo + (x-a)(hi-lo)/(b-a) /
                # x -> mu + (x-m) sd/s, whatever primitive parameters the
                # library chooses
                c0 = calls[0]
                out = np.asarray(c0['out'], dtype=float)
                pa, pb = c0['params']
                with np.errstate(all='ignore'):
                    if t['base'] == 'uniform' and c0['kind'] == 'uniform':
                        lo_, hi_ = params
                        want = lo_ + (out - pa) * ((hi_ - lo_) / (pb - pa)) \
                            if (pa, pb) != (lo_, hi_) else out
                    elif t['base'] == 'gaussian' and c0['kind'] == 'normal':
                        want = params[0] + (out - pa) * (params[1] / pb) \
                            if (pa, pb) != tuple(params) else out
                    else:
                        want = None
                scale = max(abs(float(params[0])), abs(float(params[1])))
                if len(calls) != 1 or want is None or \
                        np.shape(want) != garr.shape or not np.allclose(
                            garr, want, rtol=1e-12, atol=1e-12 * scale):
                    ex.add(violation(
                        'C14.sample', ev['id'],
                        '%s.sample(size=%r) is not the primitive draw %s%r '
                        'mapped onto the declared parameters %r' % (
                            what, size, c0['kind'], tuple(c0['params']),
                            params),
                        sig='C14.sample:distribution:' + what))
                return
            lo = num(a.get('lo', '-inf'))
            hi = num(a.get('hi', 'inf'))
            drawn = np.concatenate([np.asarray(c['out'], dtype=float)
                                    .reshape(-1) for c in calls])
            flat = garr.reshape(-1).astype(float)
            bad = (flat < lo) | (flat > hi)
            if bad.any():
                ex.add(violation(
                    'C14.sample', ev['id'],
                    'BoundedGaussian(%r, %r, %r, %r).sample(%r) returned %r '
                    '(slot %d) outside its support' % (
                        a['mu'], a['sd'], lo, hi, size,
                        float(flat[bad][0]), int(np.where(bad)[0][0])),
                    sig='C14.sample:support:bounded_gaussian'))
                return
            if declared and not np.all(np.isin(flat, drawn)):
                ex.add(violation(
                    'C14.sample', ev['id'],
                    'BoundedGaussian sample contains values that were never '
                    'drawn', sig='C14.sample:invented:bounded_gaussian'))
                return
            # bounded liveness: acceptance >= ~16% per draw by construction
            if len(calls) > nscript + 2 + 120:
                ex.add(violation(
                    'C14.sample', ev['id'],
                    'BoundedGaussian.sample needed %d primitive calls after '
                    'a %d-step script' % (len(calls), nscript),
                    sig='C14.sample:liveness:bounded_gaussian'))
            return
        # derived prior: combine recorded base draws
        it = iter([c for c in calls if np.asarray(c['out']).size > 0])
        try:
            want = self._ref_sample(t, size, it)
        except (_Unaligned, ValueError):
            # the draws could not be attributed leaf by leaf.  One thing
            # holds however the library draws (one call per prior, one
            # vectorised call, ...): separate prior objects are separate
            # random variables, so k of them need at least k variates per
            # sample
            ids = set()

            def leaves(x):
                if 'base' in x:
                    ids.add(x['id'])
                for a_ in x.get('args', []) if 'fn' in x else []:
                    leaves(a_)
            leaves(t)
            n_ = 1 if size is None else int(np.prod(size))
            seen = sum(int(np.asarray(c['out']).size) for c in calls)
            if calls and seen < len(ids) * n_:
                ex.add(violation(
                    'C14.derived', ev['id'],
                    'a derived prior over %d separate priors consumed only '
                    '%d random variates for %d sample(s): some of its base '
                    'samples are not separate draws' % (len(ids), seen, n_),
                    sig='C14.derived:too-few-draws'))
                return
            ex.stats.setdefault('extra', {})
            ex.stats['extra']['derived_unaligned'] = \
                ex.stats['extra'].get('derived_unaligned', 0) + 1
            return
        want = np.asarray(want)
        if garr.shape != want.shape:
            ex.add(violation(
                'C14.derived', ev['id'],
                'derived sample shape %s, expected %s' % (garr.shape,
                                                          want.shape),
                sig='C14.derived:shape'))
            return
        drawn = [abs(float(np.max(np.abs(c['out'])))) for c in calls
                 if np.asarray(c['out']).size]
        atol = 1e-12 * max([self._magnitude(t)] + [
            d for d in drawn if np.isfinite(d)])
        with np.errstate(all='ignore'):
            ok = np.isclose(garr, want, rtol=1e-12, atol=atol,
                            equal_nan=True) | (garr == want)
        if not np.all(ok):
            ex.add(violation(
                'C14.derived', ev['id'],
                'derived prior sample %r differs from the operation applied '
                'to the base samples %r' % (garr.reshape(-1)[:3].tolist(),
                                            want.reshape(-1)[:3].tolist()),
                sig='C14.derived:sample'))

    def _may_raise(self, t):
        """An improper (half-infinite) Uniform has no sampler: numpy raises
        OverflowError, which is an acceptable answer.  Nothing else in a
        valid expression raises."""
        if 'base' in t:
            if t['base'] == 'uniform':
                a = t['args']
                return not (math.isfinite(num(a['lo'])) and
                            math.isfinite(num(a['hi'])))
            return False
        if 'num' in t:
            return False
        return any(self._may_raise(a) for a in t['args'])

    def _ref_sample(self, t, size, it):
        n = None if size is None else int(np.prod(size))
        if 'num' in t:
            return t['num'] if size is None else np.repeat(t['num'], size)
        if 'base' in t:
            a = t['args']
            try:
                c = next(it)
            except StopIteration:
                raise _Unaligned()
            val = np.array(c['out'], dtype=float)
            if t['base'] == 'bounded_gaussian':
                lo = num(a.get('lo', '-inf'))
                hi = num(a.get('hi', 'inf'))
                val = np.atleast_1d(val).copy()
                guard = 0
                while True:
                    out = np.where((val < lo) | (val > hi))
                    if not len(out[0]):
                        break
                    try:
                        c = next(it)
                    except StopIteration:
                        raise _Unaligned()
                    fresh = np.asarray(c['out'], dtype=float).reshape(-1)
                    if fresh.size != len(out[0]):
                        raise _Unaligned()
                    val[out] = fresh
                    guard += 1
                    if guard > 500:
                        raise _Unaligned()
                if size is None:
                    return float(val[0])
                return val
            return float(val) if size is None else val
        args = [self._ref_sample(a, size, it) for a in t['args']]
        return apply_fn(t['fn'], args)

    def _magnitude(self, t):
        """Largest |leaf value| of an expression: cancellation in a
        derived expression is judged relative to it."""
        if 'num' in t:
            return abs(t['num'])
        if 'base' in t:
            g = self._ref_guess(t)
            return abs(g) if np.isfinite(g) else 0.0
        with np.errstate(all='ignore'):
            sub = [self._magnitude(a) for a in t['args']]
            try:
                own = abs(_fl(self._ref_guess(t)))
            except Exception:
                own = 0.0
        return max(sub + [own if np.isfinite(own) else 0.0])

    def _ref_guess(self, t):
        if 'num' in t:
            return t['num']
        if 'base' in t:
            a = t['args']
            if t['base'] == 'uniform':
                lo, hi = num(a['lo']), num(a['hi'])
                if a.get('guess') is not None:
                    return a['guess']
                if math.isfinite(lo) and math.isfinite(hi):
                    return (hi + lo) / 2
                return lo if math.isfinite(lo) else (
                    hi if math.isfinite(hi) else 0)
            return a['mu']
        return apply_fn(t['fn'], [self._ref_guess(a) for a in t['args']])

    def _ref_all_finite(self, t):
        """False when the expression, evaluated on the base guesses, passes
        through a division by zero or an overflow at *any* intermediate step
        (numpy arithmetic gives inf / nan there, Python floats raise)."""
        if 'fn' in t and not all(self._ref_all_finite(a) for a in t['args']):
            return False
        try:
            with np.errstate(all='ignore'):
                ref = self._ref_guess(t)
            return bool(np.all(np.isfinite(np.asarray(_fl(ref),
                                                      dtype=complex))))
        except (ZeroDivisionError, OverflowError):
            return False

    def _check_eval(self, ex, ev, rec):
        ra = rec['rargs']
        t = self.tree(ex, ra['pr'])
        if t is None or 'base' not in t:
            return
        ex.stats['oracle_sampled'] += 1
        what = t['base']
        if rec['outcome'] != 'ok':
            ex.add(violation('C14.density', ev['id'],
                             '%s prob/lnprob raised %s: %s' % (
                                 what, rec['exc'], rec['msg'][:80]),
                             sig='C14.density:exc:' + what))
            return
        p = dict(rec['payload']['__dict__'])
        xs = [num(x) for x in ra['xs']]
        a = t['args']
        if what == 'uniform':
            lo, hi = num(a['lo']), num(a['hi'])
            proper = math.isfinite(lo) and math.isfinite(hi)
        else:
            lo, hi = num(a.get('lo', '-inf')), num(a.get('hi', 'inf'))
            proper = True
        for x, pr, lp in zip(xs, p['prob'], p['lnprob']):
            inside = lo <= x <= hi
            if not inside:
                if pr != 0 or lp != -math.inf:
                    ex.add(violation(
                        'C14.density', ev['id'],
                        '%s: density outside the support at %r is prob=%r '
                        'lnprob=%r' % (what, x, pr, lp),
                        sig='C14.density:support:' + what))
                    return
                continue
            if what == 'uniform':
                want = 1.0 / (hi - lo) if proper else 0.0
            else:
                want = math.exp(-(x - a['mu']) ** 2 / (2 * a['sd'] ** 2)) / (
                    a['sd'] * math.sqrt(2 * math.pi))
            if abs(pr - want) > 1e-12 * max(want, 1e-300) and \
                    abs(pr - want) > 1e-300:
                ex.add(violation(
                    'C14.density', ev['id'],
                    '%s: prob(%r) = %r, declared density %r' % (
                        what, x, pr, want), sig='C14.density:value:' + what))
                return
            if proper and pr > 1e-300:
                if abs(lp - math.log(pr)) > 1e-9 * max(1, abs(lp)):
                    ex.add(violation(
                        'C14.density', ev['id'],
                        '%s: lnprob(%r) = %r but log(prob) = %r' % (
                            what, x, lp, math.log(pr)),
                        sig='C14.density:log:' + what))
                    return
        ng = ev.get('tags', {}).get('ngrid')
        if ng and what == 'gaussian':
            g = np.array(p['prob'][-ng:])
            h = 20 * a['sd'] / (ng - 1)
            integral = float(h * (g.sum() - 0.5 * (g[0] + g[-1])))
            if abs(integral - 1) > 1e-9:
                ex.add(violation('C14.density', ev['id'],
                                 'Gaussian density integrates to %r'
                                 % integral,
                                 sig='C14.density:integral:gaussian'))

    def _check_info(self, ex, ev, rec):
        ra = rec['rargs']
        t = self.tree(ex, ra['pr'])
        if t is None:
            return
        ex.stats['oracle_sampled'] += 1
        if rec['outcome'] != 'ok' and 'base' not in t and \
                rec.get('exc') in ('ZeroDivisionError', 'OverflowError'):
            # a degenerate expression (e.g. 1 / (p - p)): the same operation
            # applied to the base guesses fails the same way
            degenerate = not self._ref_all_finite(t)
            if degenerate:
                return
        if rec['outcome'] != 'ok':
            ex.add(violation('C14.guess', ev['id'],
                             'guess/scale raised %s: %s' % (
                                 rec['exc'], rec['msg'][:80]),
                             sig='C14.guess:exc'))
            return
        p = dict(rec['payload']['__dict__'])
        g = p['guess']
        g = g['v'] if isinstance(g, dict) and '__npscalar__' in g else g
        if isinstance(g, int) and not isinstance(g, bool):
            # exact integer arithmetic on whole-number guesses can leave the
            # float range
            try:
                g = float(g)
            except OverflowError:
                g = math.inf if g > 0 else -math.inf
        with np.errstate(all='ignore'):
            want = _fl(self._ref_guess(t))
        atol = 1e-12 * self._magnitude(t)
        same = (np.isclose(g, want, rtol=1e-12, atol=atol, equal_nan=True)
                or g == want)
        if not same:
            ex.add(violation(
                'C14.guess', ev['id'],
                'guess %r, expected %r (%s)' % (
                    g, want, t.get('base', 'derived')),
                sig='C14.guess:' + t.get('base', 'derived')))
            return
        if 'base' in t:
            a = t['args']
            if t['base'] == 'uniform':
                lo, hi = num(a['lo']), num(a['hi'])
            else:
                lo, hi = num(a.get('lo', '-inf')), num(a.get('hi', 'inf'))
            if not (lo <= g <= hi):
                ex.add(violation('C14.guess', ev['id'],
                                 'default guess %r outside the support' % g,
                                 sig='C14.guess:support'))
                return
            for x, rt in zip(ra.get('xs') or [], p.get('roundtrip', [])):
                rt = rt['v'] if isinstance(rt, dict) else rt
                if abs(rt - x) > 4 * EPS * abs(x):
                    ex.add(violation(
                        'C14.scale', ev['id'],
                        'unscale(scale(%r)) = %r' % (x, rt),
                        sig='C14.scale'))
                    return

    def _check_identity(self, ex, ev, rec):
        kind = ev['args']['kind']
        ex.stats['oracle_sampled'] += 1
        if kind in RAISING:
            if rec['outcome'] != 'exc' or rec['exc'] != 'TypeError':
                ex.add(violation(
                    'C14.algebra', ev['id'],
                    'prior %s did not raise TypeError (%s %s)' % (
                        kind, rec['outcome'], rec.get('exc') or
                        rec.get('payload')),
                    sig='C14.algebra:raise:' + kind))
            return
        if kind in NOT_IDENT:
            if rec['outcome'] != 'ok' or rec['payload'] is not False:
                ex.add(violation(
                    'C14.algebra', ev['id'],
                    'prior %s (not an identity operation) returned the '
                    'prior itself (%s %s)' % (kind, rec['outcome'],
                                              rec.get('exc') or
                                              rec.get('payload')),
                    sig='C14.algebra:not-identity:' + kind))
            return
        if rec['outcome'] != 'ok' or rec['payload'] is not True:
            ex.add(violation(
                'C14.algebra', ev['id'],
                'prior %s did not return the prior itself (%s %s)' % (
                    kind, rec['outcome'], rec.get('exc') or
                    rec.get('payload')),
                sig='C14.algebra:identity:' + kind))

    def _check_gg(self, ex, ev, rec):
        ra = rec['rargs']
        ts = [self.tree(ex, p) for p in ra['prs']]
        if any(t is None or 'base' not in t for t in ts):
            return
        ex.stats['oracle_sim'] += 1
        if rec['outcome'] != 'ok' and any(self._may_raise(t) for t in ts):
            return
        if rec['outcome'] != 'ok':
            ex.add(violation('C14.generate_guess', ev['id'],
                             'generate_guess raised %s: %s' % (
                                 rec['exc'], rec['msg'][:80]),
                             sig='C14.generate_guess:exc:' + rec['exc']))
            return
        got = np.asarray(rec['payload'])
        n = ra['nguess']
        if got.shape != (n, len(ts)):
            ex.add(violation('C14.generate_guess', ev['id'],
                             'shape %s, expected %s' % (got.shape,
                                                        (n, len(ts))),
                             sig='C14.generate_guess:shape'))
            return
        seed = ra.get('seed')
        scaling = ra.get('scaling', 1)
        # reproducible for a seed (whatever was drawn before): equal to any
        # earlier identical call of this session; equality with a pristine
        # interpreter is checked by the runner (the op is tagged ref)
        if seed is not None:
            from sim import canon
            memo = ex.__dict__.setdefault('_gg_memo', {})
            key = canon.digest([ra['prs'], n, scaling, seed])
            if key in memo and memo[key][1].tobytes() != got.tobytes():
                ex.add(violation(
                    'C14.generate_guess', ev['id'],
                    'generate_guess(seed=%r) differs from the identical call '
                    'at op %s' % (seed, memo[key][0]),
                    sig='C14.generate_guess:seeded'))
                return
            memo.setdefault(key, (ev['id'], got))
        for j, t in enumerate(ts):
            a = t['args']
            if t['base'] == 'uniform':
                lo, hi = num(a['lo']), num(a['hi'])
            elif t['base'] == 'bounded_gaussian':
                lo, hi = num(a.get('lo', '-inf')), num(a.get('hi', 'inf'))
            else:
                continue
            # scaled towards the guess: scaling <= 1 keeps the support
            if scaling <= 1 and np.any((got[:, j] < lo) | (got[:, j] > hi)):
                ex.add(violation(
                    'C14.generate_guess', ev['id'],
                    'guess outside the support of %s' % t['base'],
                    sig='C14.generate_guess:support'))
                return


class _Unaligned(Exception):
    pass


def apply_fn(fn, args):
    # numpy scalars: x / 0 gives inf / nan (as inside the library when a
    # numpy value is involved) instead of raising
    # (whole numbers stay Python ints: "the same operation applied to the
    # base guess" is then exact integer / numpy-integer arithmetic, as in the
    # library)
    args = [np.float64(a) if isinstance(a, float) else a for a in args]
    with np.errstate(all='ignore'):
        if fn == 'add' or fn == 'ufunc:add':
            return args[0] + args[1]
        if fn == 'sub':
            return args[0] + (-args[1]) if not _isnumlike(args[0]) \
                else -args[1] + args[0]
        if fn == 'mul' or fn == 'ufunc:multiply':
            return args[0] * args[1]
        if fn == 'div':
            return args[0] / args[1]
        if fn == 'pow':
            return args[0] ** args[1]
        if fn in ('neg', 'ufunc:negative'):
            return -np.asarray(args[0]) if not np.isscalar(args[0]) \
                else -args[0]
        if fn == 'ufunc:exp':
            return np.exp(args[0])
        if fn == 'ufunc:absolute':
            return np.absolute(args[0])
        if fn == 'ufunc:square':
            return np.square(args[0])
        if fn == 'ufunc:sqrt':
            return np.sqrt(args[0])
    raise ValueError(fn)


def _isnumlike(x):
    return False


PROP = C14()
