"""C13 - fitting: fixed point, monotone improvement, recovery, consistency.

[SIM]   repeatability and reusability over histories: the same fit again on
        the same objects, other data on the same strategy, the same model on
        another strategy, result queries in random order, save -> restart ->
        load, under clock jumps between the two time.time() calls of a fit,
        foreign RNG draws, and a cancellation (KeyboardInterrupt) inside the
        n-th forward evaluation of an earlier fit; fits must be bitwise
        repeatable, equal to the fit in a pristine interpreter, and leave
        model, data and strategy unchanged.
[SAMPLED] fixed point, misfit(result) <= misfit(guess), parameters inside the
        prior bounds, single-sphere recovery, result/forward consistency.
"""
import math

import numpy as np

from sim import canon
from sim import oracles as O
from sim.gen import Builder, rfloat
from sim.runner import violation

OPT = {'medium_index': 1.33, 'illum_wavelen': 0.66,
       'illum_polarization': [1, 0]}
# recovery envelope, calibrated on the repaired pinned tree (max observed
# relative error x 10); see DESIGN.md C13
TOL_FIXED = 1e-8
TOL_RECOVER = 1e-5


class C13:
    ID = 'C13'
    TITLE = 'Fitting: fixed point, monotone improvement, recovery, consistency'
    TIERS = {'quick': {'budget_s': 85.0}, 'thorough': {'budget_s': 1200.0}}

    def generate(self, rng, tier='quick'):
        b = Builder(rng)
        faults = {'F7': rng.random() < 0.5, 'F6': rng.random() < 0.4,
                  'F9': rng.random() < 0.25, 'F1': rng.random() < 0.3}
        if rng.random() < 0.3:
            faults = {k: False for k in faults}
        n = rng.choice([16, 18, 20, 24])
        spacing = rng.choice([0.1, 0.12])
        ext = n * spacing
        lens = rng.random() < 0.2
        truth = {'x': rfloat(rng, 0.35 * ext, 0.65 * ext, 4),
                 'y': rfloat(rng, 0.35 * ext, 0.65 * ext, 4),
                 'z': rfloat(rng, 8, 14, 3),
                 'r': rfloat(rng, 0.4, 0.7, 4),
                 'n': rfloat(rng, 1.5, 1.62, 4),
                 'alpha': rfloat(rng, 0.7, 0.95, 4)}
        if lens:
            truth['z'] = rfloat(rng, 2, 6, 3)
            truth['lens_angle'] = rfloat(rng, 0.7, 1.0, 3)
        # a region cut out of a larger frame keeps the frame's coordinates
        shift = None
        if rng.random() < 0.4:
            shift = [rfloat(rng, 0.3, 5, 3), rfloat(rng, 0.3, 5, 3)]
            truth['x'] = round(truth['x'] + shift[0], 6)
            truth['y'] = round(truth['y'] + shift[1], 6)
        start = rng.choice(['truth', 'perturbed', 'perturbed'])
        full = rng.random() < 0.5          # x, y, z, r, alpha all free
        free = ['x', 'y', 'z', 'r', 'alpha'] if full else \
            [k for k in ('x', 'y', 'z', 'r', 'n', 'alpha')
             if rng.random() < 0.55]
        if lens and rng.random() < 0.6:
            free.append('lens_angle')
        if not free:
            free = ['r', 'z']
        # coordinates measured from where the particle is expected: the
        # starting value of one in-plane coordinate is EXACTLY 0 and the
        # generating value a small non-zero number
        zero_guess = None
        cand0 = [k for k in ('x', 'y') if k in free]
        if start != 'truth' and cand0 and rng.random() < 0.2:
            zero_guess = rng.choice(cand0)
            i0 = 0 if zero_guess == 'x' else 1
            d0 = rng.choice([-1, 1]) * rfloat(rng, 0.005, 0.04, 4)
            shift = list(shift) if shift else [0.0, 0.0]
            shift[i0] = round(shift[i0] + d0 - truth[zero_guess], 6)
            truth[zero_guess] = d0
        guesses = {}
        priors = {}
        for k in free:
            t = truth[k]
            g = t if start == 'truth' else round(
                t * (1 + rng.choice([-1, 1]) * rfloat(rng, 0.002, 0.02, 4)), 6)
            if k in ('x', 'y'):
                g = t if start == 'truth' else round(
                    t + rng.choice([-1, 1]) * rfloat(rng, 0.005, 0.04, 4), 6)
            if k == zero_guess:
                g = 0.0
            guesses[k] = g
            w = {'x': 0.5, 'y': 0.5, 'z': 3.0, 'r': 0.25, 'n': 0.1,
                 'alpha': 0.3, 'lens_angle': 0.3}[k]
            if k == 'alpha':
                lo, hi = max(0.05, t - w), min(1.3, t + w)
            else:
                lo, hi = t - w, t + w
            kind = rng.choice(['uniform', 'uniform', 'gaussian'])
            if start != 'truth':
                # a Gaussian prior centred on a perturbed guess pulls the
                # (MAP) fit away from the generating parameters by design
                kind = 'uniform'
            if kind == 'uniform':
                priors[k] = {'ctor': 'uniform', 'args': {
                    'lo': round(lo, 6), 'hi': round(hi, 6), 'guess': g,
                    'name': k}}
            else:
                priors[k] = {'ctor': 'gaussian', 'args': {
                    'mu': g, 'sd': round(w / 2, 6), 'name': k}}

        # a mis-specified prior: the generating value of one parameter lies
        # just outside the prior's support.  The fit cannot recover it, but
        # it still has to stay inside the bounds and must not end up worse
        # than it started.
        excluded = None
        cand = [k for k in free if k in ('r', 'z', 'alpha', 'n')
                and priors[k]['ctor'] == 'uniform']
        if start != 'truth' and cand and rng.random() < 0.15:
            excluded = rng.choice(cand)
            t = truth[excluded]
            a_ = priors[excluded]['args']
            a_['lo'] = round(t * 1.004, 6)
            a_['guess'] = guesses[excluded] = round(t * 1.012, 6)
            a_['hi'] = round(max(a_['hi'], t * 1.05), 6)

        # a starting value exactly on one of its prior's bounds
        onbound = None
        onbound_single = False
        cand = [k for k in free if priors[k]['ctor'] == 'uniform'
                and k != excluded]
        if start != 'truth' and cand and rng.random() < 0.4:
            onbound = rng.choice(cand)
            a_ = priors[onbound]['args']
            side = 'hi' if a_['guess'] > truth[onbound] else 'lo'
            a_[side] = a_['guess']
            if rng.random() < 0.5:
                # ... and every other parameter starts where it belongs: the
                # misfit then falls monotonically towards the inside of the
                # bound, and the fit has to follow it all the way
                onbound_single = True
                for k_ in free:
                    if k_ != onbound and priors[k_]['ctor'] == 'uniform':
                        priors[k_]['args']['guess'] = truth[k_]
                        guesses[k_] = truth[k_]

        def v(k):
            return priors[k] if k in priors else truth[k]
        sc_args = {'n': v('n'), 'r': v('r'),
                   'center': [v('x'), v('y'), v('z')]}
        th = 'auto'
        if lens:
            th = {'kind': 'MieLens', 'options': {'lens_angle':
                                                 v('lens_angle')}}
        noise = rng.choice([0.05, 0.1, 1.0])
        tvec = {k: truth[k] for k in free}
        state = {}

        # a second model of the same system with tighter priors (what a
        # user writes after a first look at the data)
        import copy as _copy
        priors2 = _copy.deepcopy(priors)
        for k_, sp_ in priors2.items():
            if sp_['ctor'] == 'uniform':
                a_ = sp_['args']
                lo_in, hi_in = min(a_['guess'], truth[k_]), \
                    max(a_['guess'], truth[k_])
                if a_['lo'] < lo_in:
                    a_['lo'] = round(lo_in - 0.4 * (lo_in - a_['lo']), 9)
                if a_['hi'] > hi_in:
                    a_['hi'] = round(hi_in + 0.4 * (a_['hi'] - hi_in), 9)

        def v2(k):
            return priors2[k] if k in priors2 else truth[k]

        def setup():
            state['det'] = b.emit('detector_grid', {
                'shape': n, 'spacing': spacing, 'optics': OPT,
                'shift': shift}, store='det')
            state['sc'] = b.emit('sphere', sc_args, store='sc')
            state['mo'] = b.emit('model', {
                'kind': 'alpha', 'sc': state['sc'], 'alpha': v('alpha'),
                'optics': {'noise_sd': noise}, 'th': th}, store='mo')
            state['data'] = b.emit('noisy_data', {
                'mo': state['mo'], 'pars': tvec, 'det': state['det'],
                'noise': 0.0, 'seed': 1}, store='data')
            sc2 = b.emit('sphere', {'n': v2('n'), 'r': v2('r'),
                                    'center': [v2('x'), v2('y'), v2('z')]},
                         store='sc2')
            th2 = th if not lens else {
                'kind': 'MieLens', 'options': {'lens_angle': v2('lens_angle')}}
            state['mo2'] = b.emit('model', {
                'kind': 'alpha', 'sc': sc2, 'alpha': v2('alpha'),
                'optics': {'noise_sd': noise}, 'th': th2}, store='mo2')
            state['sts'] = []
            state['res'] = []
        setup()

        def new_strategy():
            kind = rng.choice(['nmpfit', 'scipy'])
            o = {}
            if rng.random() < 0.5:
                o['ftol'] = rng.choice([1e-10, 1e-8, 1e-12])
                o['xtol'] = rng.choice([1e-10, 1e-8])
            c = rng.random()
            seeded = True
            if c < 0.35:
                o['npixels'] = rng.randint(60, n * n)
                if kind == 'nmpfit' and rng.random() < 0.7:
                    o['seed'] = rng.choice([0, rng.randrange(1000),
                                            rng.randrange(1000)])
                else:
                    seeded = False
            h = b.emit('strategy', {'kind': kind, 'options': o}, store='st')
            state['sts'].append((h, kind, seeded, 'npixels' in o))
            return state['sts'][-1]

        nfit = rng.randint(2, 4 if tier == 'quick' else 6)
        other_data = None
        swap_scenario = rng.random() < 0.5
        if swap_scenario:
            t2 = dict(tvec)
            for k in t2:
                t2[k] = round(t2[k] * 1.004, 6)
            other_data = b.emit('noisy_data', {
                'mo': state['mo'], 'pars': t2, 'det': state['det'],
                'noise': 0.0, 'seed': 2}, store='data')
        for i in range(nfit):
            force_ref = False
            c = rng.random()
            if state['sts'] and c < 0.45:
                st = rng.choice(state['sts'])          # same strategy again
            else:
                st = new_strategy()
            sth, kind, seeded, sub = st
            data = state['data']
            if other_data is None and rng.random() < 0.25:
                t2 = dict(tvec)
                for k in t2:
                    if k in ('x', 'y'):
                        t2[k] = round(t2[k] + 0.01, 6)
                other_data = b.emit('noisy_data', {
                    'mo': state['mo'], 'pars': t2, 'det': state['det'],
                    'noise': 0.0, 'seed': 2}, store='data')
            if other_data is not None and rng.random() < 0.3:
                data = other_data
            if i > 0 and swap_scenario and state['sts'] and \
                    other_data is not None:
                # a different data set on a strategy that has fitted before
                st = state['sts'][0]
                sth, kind, seeded, sub = st
                data = other_data if i % 2 else state['data']
                force_ref = True
            if faults['F6'] and rng.random() < 0.5:
                b.emit('rng_draws', {'k': rng.randint(1, 40)})
            if faults['F7'] and rng.random() < 0.6:
                b.emit('clock_jump', {
                    'at_call': 1,
                    'delta': rng.choice([-3600.0, 86400.0, -0.5, 1e6]),
                    'freeze': rng.random() < 0.2})
            interrupted = False
            if faults['F9'] and rng.random() < 0.35:
                b.emit('arm_interrupt', {'n': rng.randint(0, 12)})
                interrupted = True
            tags = {'k': 'fit/' + kind, 'fit': True, 'seeded': seeded,
                    'sub': sub, 'start': start, 'full': full,
                    'is_main': data is state['data'],
                    'rng_dependent': not seeded}
            if interrupted:
                tags['impure_ok'] = True
                tags['interrupted'] = True
                tags['timeout_violation'] = 'C13.cancel'
            elif seeded and (force_ref or rng.random() < 0.4):
                tags['ref'] = True
            r = b.emit('fit', {'data': data, 'mo': state['mo'], 'st': sth},
                       store='res', tags=tags)
            if interrupted:
                b.emit('disarm', {})
                if rng.random() < 0.9:
                    # the strategy that was stopped half-way goes on to fit
                    # the tighter model
                    t2 = {'k': 'fit/' + kind, 'fit': True, 'seeded': seeded,
                          'sub': sub, 'start': start, 'full': full,
                          'is_main': data is state['data'], 'model2': True,
                          'rng_dependent': not seeded}
                    r2 = b.emit('fit', {'data': data, 'mo': state['mo2'],
                                        'st': sth}, store='res', tags=t2)
                    state['res'].append(r2)
                    b.emit('result_check', {'res': r2, 'data': data},
                           tags={'k': 'result_check', 'check': True})
                continue
            state['res'].append(r)
            if rng.random() < 0.8:
                b.emit('result_check', {'res': r, 'data': data},
                       tags={'k': 'result_check', 'check': True})
            if rng.random() < 0.35:
                path = 'result_%d.h5' % len(b.events)
                b.emit('result_check', {'res': r, 'data': data},
                       tags={'k': 'result_check', 'check': True,
                             'pair': path, 'side': 'before'})
                b.emit('hp_save', {'obj': r, 'path': path},
                       tags={'k': 'save-result', 'saveres': True})
                if faults['F1'] and rng.random() < 0.6:
                    b.restart()
                    lr = b.emit('hp_load', {'path': path}, store='res',
                                tags={'k': 'load-result', 'loadres': True})
                    b.emit('result_check', {'res': lr},
                           tags={'k': 'result_check', 'check': True,
                                 'pair': path, 'side': 'after'})
                    setup()
                    other_data = None
                else:
                    lr = b.emit('hp_load', {'path': path}, store='res',
                                tags={'k': 'load-result', 'loadres': True})
                    b.emit('result_check', {'res': lr},
                           tags={'k': 'result_check', 'check': True,
                                 'pair': path, 'side': 'after'})
                    if rng.random() < 0.4:
                        p2 = 'resave_%d.h5' % len(b.events)
                        b.emit('hp_save', {'obj': lr, 'path': p2},
                               tags={'k': 'resave-result', 'saveres': True})
                        lr2 = b.emit('hp_load', {'path': p2}, store='res',
                                     tags={'k': 'load-result',
                                           'loadres': True})
                        b.emit('result_check', {'res': lr2},
                               tags={'k': 'result_check', 'check': True,
                                     'pair': path, 'side': 'after2',
                                     'src': p2})
        return {'config': {'faults': faults, 'truth': truth, 'free': free,
                           'guesses': guesses, 'priors': priors,
                           'zero_guess': zero_guess,
                           'start': start, 'full': full, 'lens': lens,
                           'excluded': excluded, 'onbound': onbound,
                           'onbound_single': onbound_single,
                           'priors2': priors2,
                           'node': {'epoch': 1.6e9 + rng.randrange(10 ** 6),
                                    'tick': rfloat(rng, 0.001, 30.0)}},
                'events': b.events}

    # -------------------------------------------------------------- oracle
    def oracle(self, ex):
        cfg = ex.run['config']
        fits = {}
        pairs = {}
        acked = {}
        for ev in ex.run['events']:
            rec = ex.records.get(ev.get('id'))
            if not rec or rec['outcome'] in ('skip',):
                continue
            tags = ev.get('tags', {})
            if tags.get('fit'):
                ex.stats['oracle_sim'] += 1
                clk = (rec.get('extra') or {}).get('clock') or []
                if len(clk) >= 2:
                    # simulated wall-clock time the fit believed it took
                    ex.stats['sim_seconds'] += abs(clk[-1] - clk[0])
                if rec['outcome'] == 'died':
                    ex.add(violation('C13.fit', ev['id'],
                                     'the interpreter died during a fit',
                                     sig='C13.fit:died'))
                    continue
                if tags.get('interrupted'):
                    fired = (rec.get('faults') or {}).get('interrupt')
                    if fired and not (rec['outcome'] == 'exc' and
                                      rec['exc'] == 'KeyboardInterrupt'):
                        ex.add(violation(
                            'C13.cancel', ev['id'],
                            'a KeyboardInterrupt raised inside a forward '
                            'evaluation did not propagate out of fit (%s %s)'
                            % (rec['outcome'], rec.get('exc')),
                            sig='C13.cancel:swallowed'))
                    continue
                if rec['outcome'] == 'exc':
                    ex.add(violation(
                        'C13.fit', ev['id'],
                        '%s raised %s: %s' % (tags['k'], rec['exc'],
                                              rec['msg'][:120]),
                        sig='C13.fit:exc:%s:%s' % (tags['k'], rec['exc'])))
                    continue
                # repeat-equality of fits on the same objects
                if tags.get('seeded'):
                    ra = rec['rargs']
                    key = canon.digest([ra['data'], ra['mo'], ra['st']])
                    pv = self._params(rec)
                    if key in fits and pv is not None:
                        if canon.digest(fits[key][1]) != canon.digest(pv):
                            ex.add(violation(
                                'C13.repeat', ev['id'],
                                'the same fit on the same objects gave '
                                'different parameters than at op %s: %s' % (
                                    fits[key][0],
                                    canon.diff(fits[key][1], pv)),
                                sig='C13.repeat:' + tags['k']))
                    elif pv is not None:
                        fits[key] = (ev['id'], pv)
            elif tags.get('check') and tags.get('side', '').startswith(
                    'after') and not acked.get(tags.get('src',
                                                        tags.get('pair'))):
                continue      # what was loaded was never acknowledged
            elif tags.get('check') and rec['outcome'] == 'ok':
                self._check_result(ex, ev, rec, cfg)
                if tags.get('pair'):
                    pairs.setdefault(tags['pair'], {})[tags['side']] = \
                        (ev, rec)
            elif tags.get('check') and rec['outcome'] == 'exc':
                ex.add(violation('C13.result', ev['id'],
                                 'result queries raised %s: %s' % (
                                     rec['exc'], rec['msg'][:100]),
                                 sig='C13.result:exc:' + rec['exc']))
            elif tags.get('saveres') and rec['outcome'] == 'ok':
                acked[ev['args']['path']] = True
            elif tags.get('loadres') and rec['outcome'] == 'exc' and \
                    not acked.get(ev['args']['path']):
                continue      # the save was never acknowledged
            elif (tags.get('saveres') or tags.get('loadres')) and \
                    rec['outcome'] == 'exc':
                ex.add(violation(
                    'C13.reload', ev['id'],
                    '%s of a fit result raised %s: %s' % (
                        'saving' if tags.get('saveres') else 'loading',
                        rec['exc'], rec['msg'][:140]),
                    sig='C13.reload:%s:%s' % (
                        'save' if tags.get('saveres') else 'load',
                        rec['exc'])))
        for path, d in pairs.items():
            for side in ('after', 'after2'):
                if 'before' in d and side in d:
                    self._check_reload(ex, d['before'], d[side])

    def _params(self, rec):
        """Fitted parameter values from the fit payload."""
        p = rec.get('payload')
        try:
            return dict(p['__dict__'])['intervals']
        except Exception:
            return None

    def _check_result(self, ex, ev, rec, cfg):
        p = dict(rec['payload']['__dict__'])
        ex.stats['oracle_sim'] += 1

        def failed(key):
            v = p.get(key)
            if isinstance(v, dict) and '__dict__' in v:
                d = dict(v['__dict__'])
                if 'exc' in d:
                    return d
            return None
        for key in ('names', 'parameters', 'hologram', 'max_lnprob',
                    'scatterer', 'guess_parameters', 'guess_hologram',
                    'forward_at_pars', 'lnposterior_at_pars'):
            f = failed(key)
            if f:
                ex.add(violation(
                    'C13.result', ev['id'],
                    'FitResult.%s raised %s: %s' % (key, f['exc'],
                                                    f.get('msg', '')[:100]),
                    sig='C13.result:%s:%s' % (key, f['exc'])))
                return
        if p['names'] != p['model_names']:
            ex.add(violation('C13.result', ev['id'],
                             'result parameter names %r, model names %r' % (
                                 p['names'], p['model_names']),
                             sig='C13.result:names'))
            return
        if canon.digest(p['hologram']) != canon.digest(p['forward_at_pars']):
            ex.add(violation(
                'C13.result', ev['id'],
                'best-fit hologram differs from the forward model at the '
                'reported parameters: %s' % canon.diff(
                    p['hologram'], p['forward_at_pars']),
                sig='C13.result:hologram'))
            return
        mf = p.get('model_forward_grid')
        if O.is_da(mf) and O.is_da(p['hologram']):
            # ... and the model's forward calculation on the fitted image
            # (same pixels, same physical coordinates)
            ex.stats['oracle_sim'] += 1
            hm, _ = O.point_map(p['hologram'])
            fm, _ = O.point_map(mf)
            bad = None
            if sorted(hm) != sorted(fm):
                bad = 'is on other coordinates than the fitted image ' \
                    '(%r ... vs %r ...)' % (sorted(hm)[0], sorted(fm)[0])
            else:
                err = max(float(np.max(np.abs(hm[k_] - fm[k_])))
                          for k_ in fm)
                if err > 1e-9:
                    bad = 'differs by %.3g' % err
            if bad:
                ex.add(violation(
                    'C13.result', ev['id'],
                    'best-fit hologram %s from model.forward at the '
                    'reported parameters' % bad,
                    sig='C13.result:hologram-vs-model'))
                return
        elif isinstance(mf, dict) and '__dict__' in mf and \
                'exc' in dict(mf['__dict__']):
            ex.add(violation(
                'C13.result', ev['id'],
                'model.forward at the reported parameters raised %s' %
                dict(mf['__dict__'])['exc'],
                sig='C13.result:model-forward-exc'))
            return
        if canon.digest(p['max_lnprob']) != \
                canon.digest(p['lnposterior_at_pars']):
            a, bb = _f(p['max_lnprob']), _f(p['lnposterior_at_pars'])
            if not (a == bb):
                ex.add(violation(
                    'C13.result', ev['id'],
                    'max_lnprob %r differs from lnposterior at the reported '
                    'parameters %r' % (a, bb), sig='C13.result:max_lnprob'))
                return
        # parameters inside prior bounds; fixed point / recovery
        pars = {k: _f(v) for k, v in p['parameters']['__dict__']}
        fe_ = ex.events_by_id.get(rec['rargs']['res'].get('ref'))
        which = 'priors2' if fe_ is not None and fe_.get('tags', {}).get(
            'model2') and cfg.get('priors2') else 'priors'
        for k, spec in cfg[which].items():
            if spec['ctor'] == 'uniform' and k in pars:
                a = spec['args']
                if not (a['lo'] <= pars[k] <= a['hi']):
                    ex.add(violation(
                        'C13.bounds', ev['id'],
                        'fitted %s = %r outside its prior [%r, %r]' % (
                            k, pars[k], a['lo'], a['hi']),
                        sig='C13.bounds'))
                    return
        # which fit produced this result?
        fev = None
        rref = rec['rargs']['res'].get('ref')
        fe = ex.events_by_id.get(rref)
        if fe is not None and fe['op'] == 'fit':
            fev = fe
        if fev is None or not fev['tags'].get('is_main'):
            return
        ex.stats['oracle_sampled'] += 1
        gh, hh = p.get('guess_hologram'), p.get('hologram')
        drec = ex.records.get(ex.records[rref]['rargs']['data']['ref'])
        if O.is_da(gh) and O.is_da(hh) and drec and O.is_da(drec['payload']) \
                and not fev['tags'].get('sub'):
            dv = np.asarray(drec['payload']['values'], float)
            try:
                mg = float(np.sum((np.asarray(gh['values'], float)
                                   .reshape(dv.shape) - dv) ** 2))
                mh = float(np.sum((np.asarray(hh['values'], float)
                                   .reshape(dv.shape) - dv) ** 2))
            except ValueError:
                mg = mh = None
            # slack: relative 1e-9 plus rounding noise of the hologram itself
            # (a fit started at the generating parameters has mg == 0)
            floor = 1e-18 * float(np.sum(dv ** 2))
            if mg is not None and mh > mg * (1 + 1e-9) + floor:
                ex.add(violation(
                    'C13.monotone', ev['id'],
                    'misfit of the result %.6g is worse than the misfit of '
                    'the starting guess %.6g' % (mh, mg),
                    sig='C13.monotone:' + fev['tags']['k']))
                return
        if cfg.get('excluded'):
            return      # the generating parameters are out of reach
        if cfg.get('onbound') and not (cfg.get('onbound_single') and
                                       not fev['tags'].get('model2')):
            # a start exactly on a prior bound, the other parameters perturbed
            # too: the unmodified minimisers can end the search early (1-2 %
            # off, or with the parameter still on its bound: 3 of 600 runs)
            # in the flat r-z-alpha valley.  Full recovery is demanded only
            # when the parameter on the bound is the only one that is off.
            return
        truth = cfg['truth']
        worst = 0.0
        for k in cfg['free']:
            if k in pars:
                # a coordinate measured from (nearly) the particle itself
                # has no scale of its own: judged on the scale of the frame
                den = 1.0 if k == cfg.get('zero_guess') else 1e-12
                worst = max(worst, abs(pars[k] - truth[k]) /
                            max(abs(truth[k]), den))
        mx = ex.stats.setdefault('maxerr', {})
        label = ('fixed_point' if cfg['start'] == 'truth' else
                 'recover_full' if cfg['full'] and not cfg['lens']
                 else 'recover_other') + ('_sub' if fev['tags'].get('sub')
                                          else '')
        mx[label] = max(mx.get(label, 0.0), worst)
        if cfg['start'] == 'truth' and worst > TOL_FIXED:
            ex.add(violation(
                'C13.fixed-point', ev['id'],
                'started from the generating parameters, the fit moved away '
                'by %.3g (relative)' % worst,
                sig='C13.fixed-point:' + fev['tags']['k']))
        elif cfg['full'] and not cfg['lens'] and worst > TOL_RECOVER:
            ex.add(violation(
                'C13.recover', ev['id'],
                'single sphere with position, radius and scaling free was '
                'recovered only to %.3g (relative)' % worst,
                sig='C13.recover:' + fev['tags']['k']))

    def _check_reload(self, ex, before, after):
        (e0, r0), (e1, r1) = before, after
        ex.stats['oracle_sim'] += 1
        a = dict(r0['payload']['__dict__'])
        bb = dict(r1['payload']['__dict__'])
        for key in ('names', 'parameters', 'intervals', 'model_yaml',
                    'strategy_yaml', 'guess_parameters', 'scatterer',
                    'hologram', 'max_lnprob', 'time'):
            if canon.digest(a.get(key)) != canon.digest(bb.get(key)):
                if key in ('hologram', 'max_lnprob', 'time', 'parameters',
                           'intervals') and \
                        _approx_equal(a.get(key), bb.get(key)):
                    continue
                ex.add(violation(
                    'C13.reload', e1['id'],
                    'reloaded result differs from the saved one in %s: %s'
                    % (key, (canon.diff(a.get(key), bb.get(key)) or '')[:160]),
                    sig='C13.reload:' + key))
                return
        da, db = a.get('data'), bb.get('data')
        if O.is_da(da) and O.is_da(db):
            try:
                ma, _ = O.point_map(da)
                mb, _ = O.point_map(db)
                same = set(ma) == set(mb) and all(
                    np.asarray(ma[k]).tobytes() == np.asarray(mb[k]).tobytes()
                    for k in ma)
            except Exception:
                same = True
            if not same:
                ex.add(violation('C13.reload', e1['id'],
                                 'reloaded result holds different data',
                                 sig='C13.reload:data'))


def _f(v):
    if isinstance(v, dict) and '__npscalar__' in v:
        return float(np.asarray(v['v']))
    if isinstance(v, np.ndarray):
        return float(v.reshape(-1)[0])
    if O.is_da(v):
        return float(np.asarray(v['values']).reshape(-1)[0])
    return float(v)


def _approx_equal(a, b):
    """Same numbers up to the float -> text -> float round trip (exact) or the
    container type."""
    try:
        pa = canon.digest(_strip(a))
        pb = canon.digest(_strip(b))
        return pa == pb
    except Exception:
        return False


def _strip(v):
    if isinstance(v, dict) and '__npscalar__' in v:
        return float(np.asarray(v['v']))
    if isinstance(v, dict) and '__tuple__' in v:
        return [_strip(i) for i in v['__tuple__']]
    if isinstance(v, dict) and '__dict__' in v:
        return {'__dict__': [(k, _strip(x)) for k, x in v['__dict__']]}
    if isinstance(v, list):
        return [_strip(i) for i in v]
    if O.is_da(v):
        return np.asarray(v['values'], float)
    if isinstance(v, np.ndarray) and v.ndim == 0:
        return float(v)
    return v


PROP = C13()
