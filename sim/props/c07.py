"""C07 - pixel value depends only on position; subsets commute with calculation.

[SIM]   two operation orders must converge (select-then-calculate vs
        calculate-then-select); subset selection through the global-RNG seam
        (distinct, reproducible for a seed whatever foreign draws / reseeds /
        restarts happened before); purity of the one image object every
        operation of the run shares; pristine-node refinement of every
        calculation.
"""
import json

import numpy as np

from sim import oracles as O
from sim.gen import Builder, rfloat, draw_optics
from sim.props import scatgen as G
from sim.runner import violation

BITWISE_TH = ('Mie', 'MieFar', 'Multisphere', 'Tmatrix', 'auto', 'classMie')


def canon_key(rec):
    ra = rec['rargs']
    return json.dumps({'sc': ra.get('sc'), 'th': ra.get('th'),
                       'kind': ra.get('kind'), 'optics': ra.get('optics')},
                      sort_keys=True)


class C07:
    ID = 'C07'
    TITLE = 'Pixel value depends only on position: grids, points, crops, subsets'

    def generate(self, rng, tier='quick'):
        b = Builder(rng)
        faults = {'F1': rng.random() < 0.25, 'F6': rng.random() < 0.6}
        if rng.random() < 0.3:
            faults = {'F1': False, 'F6': False}
        maxside = rng.choice([6, 10, 16, 24 if tier != 'quick' else 12])
        c = rng.random()
        if c < 0.15:
            shape = [1, rng.randint(2, maxside)]
        elif c < 0.3:
            shape = [rng.randint(2, maxside), 1]
        else:
            shape = [rng.randint(2, maxside), rng.randint(2, maxside)]
        spacing = rng.choice([0.1, rfloat(rng, 0.05, 0.3, 4)])
        if rng.random() < 0.4:
            spacing = [spacing, rfloat(rng, 0.05, 0.3, 4)]
        if rng.random() < 0.12:
            # whole-number pixel pitch given as a Python int: the detector's
            # coordinates are then integer-typed
            spacing = rng.choice([1, [1, 1], 2])
        spc = spacing if isinstance(spacing, list) else [spacing, spacing]
        ext = [shape[0] * spc[0], shape[1] * spc[1]]
        tot = shape[0] * shape[1]
        # two or three (scatterer, theory) pairs
        pairs = []
        for _ in range(rng.randint(1, 3)):
            sk = rng.choice(['sphere', 'sphere', 'layered', 'spheres',
                             'spheroid', 'cylinder'])
            tk = rng.choice(G.COMPAT[sk])
            if tk in ('LensTmatrix',):
                tk = 'Tmatrix'
            th = G.draw_theory(rng, tk)
            if th is not None and tk in ('MieLens', 'AberratedMieLens'):
                # accuracy knobs that *lower* the accuracy below the
                # documented default make values depend on the point set at
                # the level of the interpolation error; keep the defaults
                acc = th[1]['options'].get('calculator_accuracy_kwargs')
                if acc:
                    acc.pop('interpolator_degree', None)
                    acc.pop('interpolator_window_size', None)
                    if acc.get('quad_npts', 100) < 100:
                        acc['quad_npts'] = 100
            scd = G.draw_scatterer(
                rng, sk, ext, grid={'shape': shape, 'spacing': spc,
                                    'origin': [0, 0]})
            if tk in ('MieLens', 'AberratedMieLens') and \
                    scd[0] == 'sphere' and rng.random() < 0.2:
                # far from focus: tens of micrometres of defocus
                scd[1]['center'][2] = rfloat(rng, 35, 110, 3)
            pairs.append((sk, tk, scd, th))
        need_x = any(tk in G.NEEDS_X_POL or
                     (tk == 'auto' and sk in ('spheroid', 'cylinder'))
                     for sk, tk, _, _ in pairs)
        optics = draw_optics(rng, [1, 0] if need_x else None)
        optics['noise_sd'] = rng.choice([None, 0.05, rfloat(rng, 0.01, 0.2)])
        img_args = {'shape': shape, 'spacing': spacing,
                    'seed': rng.randrange(2 ** 31), 'optics': optics,
                    'name': rng.choice([None, 'holo', 'img7']),
                    'z': rng.choice([0, 0, rfloat(rng, -1, 1, 3)])}
        shift = None
        state = {}

        def setup():
            state.clear()
            state['img'] = b.emit('image', img_args, store='det',
                                  meta={'kind': 'img'})
            state['pairs'] = []
            for sk, tk, sc, th in pairs:
                sh = b.emit(sc[0], sc[1], store='sc')
                thh = b.emit(th[0], th[1], store='th') if th else (
                    'class:Mie' if tk == 'classMie' else 'auto')
                state['pairs'].append((sh, thh, tk, sk))
            state['full'] = {}
            state['derived'] = []
            # a larger image used for selection-only operations (no solver
            # calls), so that sparse subsets of big images are also drawn
            state['big'] = b.emit('image', dict(
                img_args, shape=big_shape, seed=img_args['seed'] + 1),
                store='det', meta={'kind': 'big'})
        big_shape = [rng.randint(16, 40), rng.randint(16, 40)]
        setup()
        seeds = [rng.randrange(1000), rng.choice([0, rng.randrange(1000)])]
        nops = rng.randint(10, 30)

        alt = draw_optics(rng, [1, 0] if need_x else None)
        use_alt = rng.random() < 0.5

        def calc(det, pi, kind, store=None, extra_tags=None, oi=0):
            sh, thh, tk, sk = state['pairs'][pi]
            tags = {'k': tk + '/' + sk, 'ref': True, 'pair': pi,
                    'tk': tk}
            tags.update(extra_tags or {})
            if tags.get('ref') is False:
                tags.pop('ref')
            return b.emit('calc', {'kind': kind, 'det': det, 'sc': sh,
                                   'th': thh, 'optics': alt if oi else None,
                                   'scaling': 1.0 if kind == 'holo' else None},
                          store=store, tags=tags)

        for _ in range(nops):
            c = rng.random()
            if faults['F1'] and c < 0.04:
                b.restart()
                setup()
                continue
            if faults['F6'] and c < 0.2:
                if rng.random() < 0.6:
                    b.emit('rng_draws', {'k': rng.randint(1, 40)})
                else:
                    b.emit('rng_reseed', {'seed': rng.randrange(2 ** 31)})
                continue
            pi = rng.randrange(len(state['pairs']))
            kind = rng.choice(['holo', 'holo', 'field', 'intensity'])
            route = rng.choice(['full', 'points', 'subset_calc',
                                'calc_subset', 'crop_calc', 'calc_crop',
                                'subset_only', 'subset_only', 'subset_none',
                                'tilted', 'sph'])
            img = state['img']
            oi = 1 if (use_alt and rng.random() < 0.4) else 0
            if (pi, kind, oi) not in state['full'] or route == 'full':
                state['full'][(pi, kind, oi)] = calc(
                    img, pi, kind, store='res',
                    extra_tags={'route': 'full'}, oi=oi)
                if route == 'full':
                    continue
            full = state['full'][(pi, kind, oi)]
            k = rng.choice([1, tot, rng.randint(1, tot), rng.randint(1, tot)])
            seed = rng.choice(seeds + [None, rng.randrange(10 ** 6)])
            if route == 'sph':
                # the same locations listed as (r, theta, phi) about a single
                # sphere: same values as the Cartesian list, on every call
                sk_, tk_, scd_, _ = pairs[pi]
                if sk_ != 'sphere' or scd_[0] != 'sphere' or \
                        tk_ not in ('Mie', 'auto', 'classMie'):
                    continue
                ps = rng.randrange(10 ** 6)
                kk = rng.randint(1, min(tot, 16))
                grp = len(b.events)
                pc = b.emit('points_from_grid',
                            {'det': img, 'perm_seed': ps, 'k': kk},
                            store='pts')
                calc(pc, pi, kind, extra_tags={'route': 'sph-cart',
                                               'grp': grp}, oi=oi)
                psph = b.emit('points_from_grid',
                              {'det': img, 'perm_seed': ps, 'k': kk,
                               'sph_about': list(scd_[1]['center'])},
                              store='pts')
                for rep in range(rng.choice([1, 2, 2])):
                    calc(psph, pi, kind, extra_tags={'route': 'sph-sph',
                                                     'grp': grp}, oi=oi)
                continue
            if route == 'tilted':
                # explicit points on a minutely tilted plane: the group is
                # either refused or gives, at each point, what that point
                # gives on its own
                tilt = rng.choice([1e-6, 1e-7, 3e-6, 1e-9]) * \
                    rng.choice([1, -1])
                ps = rng.randrange(10 ** 6)
                kk = rng.randint(min(3, tot), max(min(3, tot), min(tot, 12)))
                grp = len(b.events)
                spread = None
                if rng.random() < 0.4:
                    # ... or points at wildly different distances
                    tilt, spread = None, rng.randrange(10 ** 6)
                pts = b.emit('points_from_grid',
                             {'det': img, 'perm_seed': ps, 'k': kk,
                              'tilt': tilt, 'spread': spread}, store='pts')
                calc(pts, pi, kind, extra_tags={'route': 'tilted-group',
                                                'grp': grp, 'ref': False})
                for j in rng.sample(range(kk), min(kk, 3)):
                    p1 = b.emit('points_from_grid',
                                {'det': img, 'perm_seed': ps, 'k': kk,
                                 'tilt': tilt, 'spread': spread,
                                 'only': [j]}, store='pts')
                    calc(p1, pi, kind, extra_tags={'route': 'tilted-single',
                                                   'grp': grp, 'j': j,
                                                   'ref': False})
                continue
            if route == 'points':
                pts = b.emit('points_from_grid',
                             {'det': img, 'perm_seed': rng.randrange(10 ** 6),
                              'k': rng.choice([None, k]),
                              'as_float': rng.random() < 0.5}, store='pts')
                calc(pts, pi, kind, extra_tags={'route': 'points'}, oi=oi)
            elif route == 'subset_calc':
                sub = b.emit('make_subset',
                             {'det': img, 'pixels': k, 'seed': seed,
                              'return_selection': rng.random() < 0.3},
                             store='sub',
                             tags={'rng_state': True, 'subset': True,
                                   'ref': seed is not None,
                                   'rng_dependent': seed is None})
                calc(sub, pi, kind, extra_tags={'route': 'subset'}, oi=oi)
            elif route == 'calc_subset':
                b.emit('make_subset', {'det': full, 'pixels': k, 'seed': seed},
                       tags={'rng_state': True, 'subset': True,
                             'of_result': True, 'route': 'calc_subset',
                             'rng_dependent': seed is None, 'pair': pi})
            elif route in ('crop_calc', 'calc_crop'):
                sx = rng.randint(1, shape[0])
                sy = rng.randint(1, shape[1])
                s = rng.choice([min(sx, sy), 2, rng.randint(1, max(shape))])
                cen = [rng.randint(0, shape[0]), rng.randint(0, shape[1])]
                if rng.random() < 0.3:
                    cen = [cen[0] + rfloat(rng, -0.4, 0.4, 2),
                           cen[1] + rfloat(rng, -0.4, 0.4, 2)]
                if route == 'crop_calc':
                    crop = b.emit('subimage', {'det': img, 'center': cen,
                                               'shape': s}, store='crop')
                    calc(crop, pi, kind, extra_tags={'route': 'crop'}, oi=oi)
                else:
                    b.emit('subimage', {'det': full, 'center': cen,
                                        'shape': s},
                           tags={'route': 'calc_crop', 'pair': pi})
            elif route == 'subset_only':
                if rng.random() < 0.7:
                    img = state['big']
                    btot = big_shape[0] * big_shape[1]
                    k = rng.choice([rng.randint(1, max(1, btot // 16)),
                                    rng.randint(1, btot)])
                b.emit('make_subset', {'det': img, 'pixels': k, 'seed': seed,
                                       'return_selection': True},
                       tags={'rng_state': True, 'subset': True,
                             'ref': seed is not None,
                             'rng_dependent': seed is None})
            else:
                b.emit('make_subset', {'det': img, 'pixels': None,
                                       'seed': seed},
                       tags={'subset_none': True})
        return {'config': {'faults': faults, 'shape': shape, 'node': {}},
                'events': b.events}

    # -------------------------------------------------------------- oracle
    def oracle(self, ex):
        evs = ex.events_by_id
        # reference maps: pristine full-grid result per (sc, th, kind)
        refmaps = {}

        def ref_for(rec):
            ra = rec['rargs']
            key = json.dumps({'sc': ra.get('sc'), 'th': ra.get('th'),
                              'kind': ra.get('kind'),
                              'optics': ra.get('optics')}, sort_keys=True)
            return key

        for ev in ex.run['events']:
            if ev.get('op') != 'calc':
                continue
            if ev.get('tags', {}).get('route') != 'full':
                continue
            rec = ex.records.get(ev['id'])
            pr = ex.pristine.get(ev['id'])
            if not rec or rec['outcome'] != 'ok' or not pr or \
                    pr.get('outcome') != 'ok':
                continue
            dev = evs.get(rec['rargs']['det'].get('ref'))
            if dev is None or dev['op'] != 'image':
                continue
            key = ref_for(rec) + '|' + str(rec['rargs']['det']['ref'])
            if key not in refmaps:
                try:
                    refmaps[key] = O.point_map(pr['payload'])[0]
                except Exception:
                    pass

        def image_root(ref):
            """Follow det refs back to the image constructor."""
            seen = 0
            while ref is not None and seen < 6:
                e = evs.get(ref)
                if e is None:
                    return None
                if e['op'] == 'image':
                    return ref
                r = ex.records.get(ref)
                if not r or 'rargs' not in r:
                    return None
                d = r['rargs'].get('det')
                ref = d.get('ref') if isinstance(d, dict) else None
                seen += 1
            return None

        sphg = {}
        for ev in ex.run['events']:
            tg = ev.get('tags', {})
            if tg.get('route') in ('sph-cart', 'sph-sph'):
                rec = ex.records.get(ev['id'])
                if rec and rec['outcome'] == 'ok' and O.is_da(
                        rec.get('payload')):
                    sphg.setdefault(tg['grp'], {}).setdefault(
                        tg['route'], []).append((ev, rec))
        for d in sphg.values():
            for cev, crec in d.get('sph-cart', [])[:1]:
                cv = np.asarray(crec['payload']['values'])
                for sev, srec in d.get('sph-sph', []):
                    sv = np.asarray(srec['payload']['values'])
                    ex.stats['oracle_sim'] += 1
                    if sv.shape != cv.shape:
                        ex.add(violation(
                            'C07.coords', sev['id'],
                            'result on spherical points has shape %r, on the '
                            'same Cartesian points %r' % (sv.shape, cv.shape),
                            sig='C07.coords:sph'))
                        continue
                    scale = max(1e-300, float(np.max(np.abs(cv))))
                    err = float(np.max(np.abs(sv - cv))) / scale
                    mx = ex.stats.setdefault('maxerr', {})
                    mx['sph_points'] = max(mx.get('sph_points', 0.0), err)
                    if not err <= 1e-8:
                        ex.add(violation(
                            'C07.value', sev['id'],
                            'locations listed as (r, theta, phi) about the '
                            'sphere give values %.3g (relative) away from '
                            'the same locations listed as (x, y, z)' % err,
                            sig='C07.value:sph'))
        tilted = {}
        for ev in ex.run['events']:
            tg = ev.get('tags', {})
            if tg.get('route') in ('tilted-group', 'tilted-single'):
                rec = ex.records.get(ev['id'])
                if rec and rec['outcome'] == 'ok' and O.is_da(
                        rec.get('payload')):
                    d = tilted.setdefault((tg['grp'], canon_key(rec)), {})
                    d.setdefault(tg['route'], []).append((ev, rec))
        for (_, _), d in tilted.items():
            for gev, grec in d.get('tilted-group', []):
                gp = grec['payload']
                gvals = np.moveaxis(gp['values'],
                                    gp['dims'].index('point'), 0)
                gdet = ex.records.get(grec['rargs']['det'].get('ref'))
                if not gdet or gdet['outcome'] != 'ok':
                    continue
                gpts = O.as_points(gdet['payload'])[0]
                for sev, srec in d.get('tilted-single', []):
                    sdet = ex.records.get(srec['rargs']['det'].get('ref'))
                    if not sdet or sdet['outcome'] != 'ok':
                        continue
                    spts = O.as_points(sdet['payload'])[0]
                    if len(spts) != 1:
                        continue
                    hit = [i for i in range(len(gpts))
                           if gpts[i].tobytes() == spts[0].tobytes()]
                    if len(hit) != 1 or hit[0] >= len(gvals):
                        continue
                    j = hit[0]
                    sp_ = srec['payload']
                    sv = np.moveaxis(sp_['values'],
                                     sp_['dims'].index('point'), 0)[0]
                    ex.stats['oracle_sim'] += 1
                    scale = max(1.0, float(np.max(np.abs(sv))))
                    err = float(np.max(np.abs(gvals[j] - sv))) / scale
                    mx = ex.stats.setdefault('maxerr', {})
                    mx['tilted'] = max(mx.get('tilted', 0.0), err)
                    if err > 1e-9:
                        ex.add(violation(
                            'C07.value', gev['id'],
                            'the point %r of a point list with varying z '
                            'gives %.3g (relative) another value inside the '
                            'list than on its own' % (
                                gpts[j].tolist(), err),
                            sig='C07.value:tilted'))
                        break
        for ev in ex.run['events']:
            rec = ex.records.get(ev.get('id'))
            if not rec or rec['outcome'] != 'ok':
                continue
            tags = ev.get('tags', {})
            # ---- route results vs reference map
            if ev['op'] == 'calc' and tags.get('route') in (
                    'points', 'subset', 'crop'):
                root = image_root(rec['rargs']['det'].get('ref'))
                if root is None:
                    continue
                refmap = refmaps.get(ref_for(rec) + '|' + str(root))
                if refmap is None:
                    continue
                self._compare_route(ex, ev, rec, refmap, tags)
            if ev['op'] in ('make_subset', 'subimage') and \
                    tags.get('route') in ('calc_subset', 'calc_crop'):
                # selection applied to a full result
                full_ref = rec['rargs']['det'].get('ref')
                frec = ex.records.get(full_ref)
                fpr = ex.pristine.get(full_ref)
                if not frec or frec['outcome'] != 'ok' or not fpr or \
                        fpr.get('outcome') != 'ok':
                    continue
                refmap = O.point_map(fpr['payload'])[0]
                self._compare_values(ex, ev, rec['payload'], refmap,
                                     tags.get('route'), bitwise=True)
            # ---- subset semantics
            if ev['op'] == 'make_subset' and tags.get('subset'):
                self._check_subset(ex, ev, rec)
            if ev['op'] == 'make_subset' and tags.get('subset_none'):
                ex.stats['oracle_sim'] += 1
                src = ex.records.get(rec['rargs']['det'].get('ref'))
                if src and src.get('digest') and \
                        rec['digest'] != src['digest']:
                    ex.add(violation(
                        'C07.subset', ev['id'],
                        'pixels=None did not return the data unchanged',
                        sig='C07.subset:none'))
            if ev['op'] == 'subimage':
                self._check_crop(ex, ev, rec)

    # ------------------------------------------------------------------
    def _compare_route(self, ex, ev, rec, refmap, tags):
        p = rec['payload']
        if not O.is_da(p):
            return
        route = tags['route']
        tk = tags.get('tk')
        bitwise = tk in BITWISE_TH
        if route == 'points':
            # positional result: coordinates from the points detector
            drec = ex.records.get(rec['rargs']['det']['ref'])
            if not drec or drec['outcome'] != 'ok':
                return
            dpts, _, _, names = O.as_points(drec['payload'])
            rpts, vals, rest, rn = O.as_points(p)
            if rn != ('point',) or len(rpts) != len(dpts):
                ex.add(violation('C07.coords', ev['id'],
                                 'result on a point list is not aligned '
                                 'with the points', sig='C07.coords:points'))
                return
            got = {tuple(float(c) for c in dpts[i]): vals[i]
                   for i in range(len(dpts))}
            self._compare_map(ex, ev, got, refmap, route, bitwise)
        else:
            self._compare_values(ex, ev, p, refmap, route, bitwise)

    def _compare_values(self, ex, ev, p, refmap, route, bitwise):
        if not O.is_da(p):
            return
        try:
            got, _ = O.point_map(p)
        except Exception as e:
            ex.add(violation('C07.coords', ev['id'],
                             'result of route %s has no usable coordinates: '
                             '%s' % (route, e), sig='C07.coords:' + route))
            return
        self._compare_map(ex, ev, got, refmap, route, bitwise)

    def _compare_map(self, ex, ev, got, refmap, route, bitwise):
        ex.stats['oracle_sim'] += 1
        xc = ex.stats.setdefault('extra', {})
        xc['route_' + route] = xc.get('route_' + route, 0) + 1
        xc['route_points_compared'] = xc.get('route_points_compared', 0) \
            + len(got)
        worst = 0.0
        for pt, v in got.items():
            if pt not in refmap:
                ex.add(violation(
                    'C07.coords', ev['id'],
                    'route %s produced a point %r that is not a pixel of the '
                    'grid' % (route, pt), sig='C07.coords:' + route))
                return
            a = np.asarray(v)
            r = np.asarray(refmap[pt])
            if a.shape != r.shape:
                ex.add(violation('C07.value', ev['id'],
                                 'route %s: value shape differs' % route,
                                 sig='C07.value:' + route))
                return
            if bitwise:
                if a.tobytes() != r.tobytes():
                    err = float(np.max(np.abs(a - r)))
                    ex.add(violation(
                        'C07.value', ev['id'],
                        'route %s: value at %r differs from the full-grid '
                        'value (|diff| %.3g)' % (route, pt, err),
                        sig='C07.value:' + route))
                    return
            else:
                scale = max(1.0, float(np.max(np.abs(r))))
                worst = max(worst, float(np.max(np.abs(a - r))) / scale)
        if not bitwise:
            mx = ex.stats.setdefault('maxerr', {})
            mx['lens_' + route] = max(mx.get('lens_' + route, 0.0), worst)
        if not bitwise and worst > 1e-9:
            ex.add(violation(
                'C07.value', ev['id'],
                'route %s: values differ from the full-grid values by %.3g '
                '(relative), tolerance 1e-9' % (route, worst),
                sig='C07.value:' + route + ':lens'))

    def _check_subset(self, ex, ev, rec):
        ra = rec['rargs']
        src = ex.records.get(ra['det'].get('ref'))
        if not src or src['outcome'] != 'ok' or not O.is_da(src['payload']):
            return
        sp = src['payload']
        if 'flat' in sp['dims'] or 'point' in sp['dims']:
            return
        p = rec['payload']
        k = ra.get('pixels')
        seed = ra.get('seed')
        nx = len(sp['coords']['x']['values'])
        ny = len(sp['coords']['y']['values'])
        tot = nx * ny
        ex.stats['oracle_sim'] += 1
        # The pixel draw is *observed* at the RNG seam for the evidence
        # (how the library draws is its own business); the oracles below are
        # behavioural: distinct pixels, values / coordinates / metadata kept,
        # and - for a seed - the same selection at every position of every
        # history (pristine-node refinement + repeats inside the run).
        xc = ex.stats.setdefault('extra', {})
        key = 'subset_seeded' if seed is not None else 'subset_unseeded'
        xc[key] = xc.get(key, 0) + 1
        if any(c[0] == 'choice' for c in rec.get('rng_calls', [])):
            xc['draws_observed_at_seam'] = \
                xc.get('draws_observed_at_seam', 0) + 1
        pts, vals, rest, names = O.as_points(p)
        spts, svals, srest, _ = O.as_points(sp)
        # source flat order is (x, y, z) stacked: index = ix*ny + iy
        srcmap = {}
        for i in range(len(spts)):
            srcmap[tuple(float(c) for c in spts[i])] = svals[i]
        if len(pts) != k:
            ex.add(violation('C07.subset', ev['id'],
                             'subset has %d pixels, %d requested' % (
                                 len(pts), k), sig='C07.subset:size'))
            return
        keys = [tuple(float(c) for c in pts[i]) for i in range(len(pts))]
        if len(set(keys)) != len(keys):
            ex.add(violation('C07.subset', ev['id'],
                             'subset contains a pixel twice',
                             sig='C07.subset:distinct'))
            return
        if seed is not None:
            # reproducible for a given seed: same selection as any earlier
            # subset of the same image with the same (seed, size)
            memo = ex.__dict__.setdefault('_subset_memo', {})
            mk = (str(ra['det'].get('ref')), seed, k)
            if mk in memo and memo[mk][1] != keys:
                ex.add(violation(
                    'C07.subset', ev['id'],
                    'seed=%r gave a different selection of %d pixels than '
                    'at op %s of the same session' % (seed, k, memo[mk][0]),
                    sig='C07.subset:seeded'))
                return
            memo.setdefault(mk, (ev['id'], keys))
        for i, kk in enumerate(keys):
            if kk not in srcmap or \
                    np.asarray(vals[i]).tobytes() != \
                    np.asarray(srcmap[kk]).tobytes():
                ex.add(violation('C07.subset', ev['id'],
                                 'subset value at %r differs from the '
                                 'image value' % (kk,),
                                 sig='C07.subset:value'))
                return
        sel = (rec.get('extra') or {}).get('selection')
        if sel is not None:
            xs = np.asarray(sp['coords']['x']['values'], dtype=float)
            ys = np.asarray(sp['coords']['y']['values'], dtype=float)
            zs = np.asarray(sp['coords']['z']['values'],
                            dtype=float).reshape(-1)
            sel_keys = [(float(xs[s_ // ny]), float(ys[s_ % ny]),
                         float(zs[0])) for s_ in np.asarray(sel).tolist()]
            if sel_keys != keys:
                ex.add(violation('C07.subset', ev['id'],
                                 'returned selection does not index the '
                                 'selected pixels',
                                 sig='C07.subset:selection'))
                return
        # name, metadata, original axes
        if p.get('name') != sp.get('name'):
            ex.add(violation('C07.subset', ev['id'], 'name not kept',
                             sig='C07.subset:name'))
            return
        pa = O.attrs_of(p)
        sa = O.attrs_of(sp)
        od = pa.pop('original_dims', None)
        sa.pop('original_dims', None)
        from sim import canon
        for kk in sa:
            if canon.digest(sa[kk]) != canon.digest(pa.get(kk)):
                ex.add(violation('C07.subset', ev['id'],
                                 'metadata %s not kept' % kk,
                                 sig='C07.subset:attrs'))
                return
        if od is None:
            ex.add(violation('C07.subset', ev['id'],
                             'original axes not remembered',
                             sig='C07.subset:original_dims'))
            return
        odd = {k_: v for k_, v in od['__dict__']}
        for dim in sp['dims']:
            want = np.asarray(sp['coords'][dim]['values'])
            got = odd.get(dim)
            if got is None or np.asarray(got).tobytes() != want.tobytes():
                ex.add(violation('C07.subset', ev['id'],
                                 'original axis %s not remembered' % dim,
                                 sig='C07.subset:original_dims'))
                return

    def _check_crop(self, ex, ev, rec):
        ra = rec['rargs']
        src = ex.records.get(ra['det'].get('ref'))
        if not src or src['outcome'] != 'ok' or not O.is_da(src['payload']):
            return
        sp, p = src['payload'], rec['payload']
        ex.stats['oracle_sampled'] += 1
        smap, _ = O.point_map(sp)
        cmap, _ = O.point_map(p)
        for pt, v in cmap.items():
            if pt not in smap or np.asarray(v).tobytes() != \
                    np.asarray(smap[pt]).tobytes():
                ex.add(violation('C07.crop', ev['id'],
                                 'cropped pixel %r does not keep value and '
                                 'coordinates' % (pt,), sig='C07.crop'))
                return


PROP = C07()
