"""Property modules: one generator + oracle set per claimed property."""
import importlib

CLAIMED = ['C01', 'C07', 'C10', 'C11', 'C12', 'C13', 'C14', 'C15', 'C16',
           'C18', 'C20']


def load(pid):
    mod = importlib.import_module('sim.props.' + pid.lower())
    return mod.PROP
