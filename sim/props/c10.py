"""C10 - T-matrix scatterers: sphere limit, symmetry, never abort.

[SIM]   process lifetime under a supervisor: no scattering operation may end
        the interpreter; after any exception the next valid calculation still
        equals the pristine-node result (COMMON-block state survives calls).
[SAMPLED] sphere limit vs far-field Mie, equal-axes spheroid = sphere, spin
        and axis-reversal invariance, mirror symmetry, out-of-range angles =
        the equivalent in-range orientation.
"""
import math

import numpy as np

from sim import oracles as O
from sim.gen import Builder, rfloat, draw_index
from sim.props import scatgen as G
from sim.runner import violation

OPT = {'medium_index': 1.33, 'illum_wavelen': 0.66,
       'illum_polarization': [1, 0]}

# tolerances, calibrated on the (repaired) pinned tree over 20k pairs with a
# 10x margin; see DESIGN.md C10
TOL_SPHERE = 1e-4       # T-matrix sphere vs far-field Mie, relative to max|ref|
TOL_SYM = 1e-6          # default for same-solver symmetry relations
TOL_REL = {'mirror': 1e-5, 'reduce': 1e-8, 'reverse': 1e-8, 'spin': 1e-10}


def draw_angle(rng, period):
    c = rng.random()
    if c < 0.45:
        return rfloat(rng, 0, period, 4)
    if c < 0.6:
        return -rfloat(rng, 0, period, 4)
    if c < 0.75:
        return rfloat(rng, period, 3 * period, 4)
    if c < 0.8:
        return rng.choice([0.0, -0.0, 5e-324, -5e-324, 1e-300])
    if c < 0.85:
        return rng.choice([1e3, -1e3, 123456.789])
    return rng.choice([period, period / 2, 2 * period, math.pi, 2 * math.pi,
                       math.pi / 2, -math.pi])


# azimuths at which a direction lies exactly in a coordinate plane: detector
# points on the grid row / column through the particle have exactly these, and
# a particle axis in the same plane makes the solver's frame change degenerate
PLANE_AZIMUTHS = [0.0, math.pi / 2, math.pi, 3 * math.pi / 2]


def draw_rotation(rng, wild=True):
    if not wild:
        al = (rng.choice(PLANE_AZIMUTHS) if rng.random() < 0.3
              else rfloat(rng, 0, 2 * math.pi, 4))
        # axis exactly along / against / across the beam: the solver's
        # angular functions take a separate branch at the poles
        be = (rng.choice([0.0, math.pi, math.pi / 2]) if rng.random() < 0.2
              else rfloat(rng, 0, math.pi, 4))
        return [0, be, al]
    return [draw_angle(rng, 2 * math.pi), draw_angle(rng, math.pi),
            draw_angle(rng, 2 * math.pi)]


def draw_tm_scatterer(rng, center, wild=True, sizeclass=None):
    kind = rng.choice(['spheroid', 'spheroid', 'cylinder', 'sphere'])
    sizeclass = sizeclass or rng.choices(
        ['small', 'mid', 'edge', 'huge', 'absurd'],
        [0.4, 0.45, 0.08, 0.05, 0.02])[0]
    if sizeclass == 'absurd':
        # "any size": far beyond anything physical (size parameter up to
        # 1e13, beyond the range of a 32-bit integer)
        a = rng.choice([1e3, 1e6, 2e8, 3.7e9, 1e12])
    elif sizeclass == 'small':
        a = rfloat(rng, 0.01, 0.2, 4)
    elif sizeclass == 'mid':
        a = rfloat(rng, 0.2, 0.9, 4)
    elif sizeclass == 'edge':
        a = rfloat(rng, 0.9, 1.5, 4)
    else:
        a = rfloat(rng, 8.4, 12.0, 3)   # beyond the work arrays: fails fast
    n = draw_index(rng, 0.3)
    if rng.random() < 0.04:
        # metal-like / absurd refractive indices ("any ... absorbing and
        # non-absorbing indices"): |m| x may exceed what the solver's
        # Bessel-function work arrays hold
        n = rng.choice([40.0, {'c': [2.0, 40.0]}, 100.0, {'c': [0.2, 3.5]},
                        {'c': [1.5, 8.0]}])
        if sizeclass in ('small', 'mid') and rng.random() < 0.5:
            a = rfloat(rng, 2.0, 5.0, 3)
    if kind == 'sphere':
        return {'op': 'sphere', 'args': {'n': n, 'r': a, 'center': center}}
    if kind == 'spheroid':
        asp = rng.choice([rfloat(rng, 0.3, 3.0, 3), rfloat(rng, 0.7, 1.4, 3),
                          1.0])
        return {'op': 'spheroid',
                'args': {'n': n, 'r': [a, round(a * asp, 4)],
                         'rotation': draw_rotation(rng, wild),
                         'center': center}}
    asp = rfloat(rng, 0.5, 2.0, 3)
    return {'op': 'cylinder',
            'args': {'n': n, 'd': round(2 * a, 4), 'h': round(2 * a * asp, 4),
                     'rotation': draw_rotation(rng, wild), 'center': center}}


def reduce_angles(alpha, beta):
    """Equivalent in-range orientation (axis direction preserved)."""
    b = math.fmod(beta, 2 * math.pi)
    if b < 0:
        b += 2 * math.pi
    a = alpha
    if b > math.pi:
        b = 2 * math.pi - b
        a = a + math.pi
    a = math.fmod(a, 2 * math.pi)
    if a < 0:
        a += 2 * math.pi
    return a, b


class C10:
    ID = 'C10'
    TITLE = 'T-matrix: sphere limit, symmetry, never abort the interpreter'

    def generate(self, rng, tier='quick'):
        b = Builder(rng)
        faults = {'F1': rng.random() < 0.3}
        # detectors
        n = rng.randint(2, 7)
        spacing = rng.choice([0.1, 0.15, rfloat(rng, 0.05, 0.3, 3)])
        dets = [{'op': 'detector_grid',
                 'args': {'shape': [n, rng.randint(2, 7)], 'spacing': spacing,
                          'optics': OPT}}]
        m = rng.randint(2, 12)
        dets.append({'op': 'detector_points', 'args': {'coords': {
            'theta': [rfloat(rng, 0, 1.0, 5) for _ in range(m)],
            'phi': [rng.choice(PLANE_AZIMUTHS + [2 * math.pi])
                    if rng.random() < 0.3 else rfloat(rng, 0, 2 * math.pi, 5)
                    for _ in range(m)],
            'r': [rfloat(rng, 8, 40, 3) for _ in range(m)]},
            'optics': OPT}})
        ext = n * spacing
        nops = rng.randint(10, 28)
        dh = {}

        def det(i):
            if i not in dh:
                dh[i] = b.emit(dets[i]['op'], dets[i]['args'], store='det')
            return dh[i]

        def center():
            c = [rfloat(rng, 0, ext, 3), rfloat(rng, 0, ext, 3),
                 rfloat(rng, 5, 15, 3)]
            # sometimes exactly on a grid row / column: the pixels of that
            # row see the particle at azimuth exactly 0 or pi (pi/2, 3pi/2)
            for ax in (0, 1):
                if rng.random() < 0.25:
                    c[ax] = rng.randrange(n) * spacing
            return c

        for _ in range(nops):
            c = rng.random()
            if faults['F1'] and c < 0.05:
                b.restart()
                dh.clear()
                continue
            di = rng.randrange(2)
            if c < 0.5:
                # plain T-matrix calculation, wild angles / sizes
                sc = draw_tm_scatterer(rng, center())
                h = b.emit(sc['op'], sc['args'], store='sc')
                th = rng.choice(['auto', 'tm', 'tm', 'lens'])
                if sc['op'] == 'sphere' and th == 'auto':
                    th = 'tm'
                if th == 'auto':
                    tha = 'auto'
                elif th == 'tm':
                    tha = b.emit('theory', {'kind': 'Tmatrix'}, store='th')
                else:
                    di = 0
                    tha = b.emit('theory', {
                        'kind': 'Lens', 'inner': {'kind': 'Tmatrix'},
                        'options': {'lens_angle': rfloat(rng, 0.4, 1.0, 3),
                                    'quad_npts_theta': rng.choice([8, 12]),
                                    'quad_npts_phi': rng.choice([8, 12])}},
                        store='th')
                kind = rng.choice(['holo', 'field', 'scat_matrix',
                                   'intensity'])
                if th == 'lens' and kind == 'scat_matrix':
                    kind = 'holo'
                b.emit('calc', {'kind': kind, 'det': det(di), 'sc': h,
                                'th': tha, 'optics': None,
                                'scaling': 1.0 if kind == 'holo' else None},
                       tags={'k': 'tm/' + sc['op'], 'ref': True, 'tm': True})
                # the same particle again (other detector / quantity / an
                # equivalent orientation): the solver keeps its state in
                # COMMON blocks, also after a failed attempt
                for _rep in range(rng.choice([0, 0, 1, 1, 2])):
                    h2 = h
                    if sc['op'] != 'sphere' and rng.random() < 0.5:
                        a2 = dict(sc['args'])
                        r0 = a2['rotation']
                        a2['rotation'] = [rfloat(rng, 0, 6, 3), r0[1], r0[2]]
                        h2 = b.emit(sc['op'], a2, store='sc')
                    kind2 = rng.choice(['holo', 'field', 'scat_matrix'])
                    if th == 'lens' and kind2 == 'scat_matrix':
                        kind2 = 'field'
                    b.emit('calc', {
                        'kind': kind2,
                        'det': det(di if th == 'lens' else rng.randrange(2)),
                        'sc': h2, 'th': tha, 'optics': None,
                        'scaling': 1.0 if kind2 == 'holo' else None},
                        tags={'k': 'tm-again/' + sc['op'], 'ref': True,
                              'tm': True})
            elif c < 0.62:
                # other solvers interleaved
                sk = rng.choice(['sphere', 'spheres', 'layered'])
                op, args, meta = G.draw_scatterer(rng, sk, [ext, ext])
                h = b.emit(op, args, store='sc')
                tk = rng.choice([t for t in G.COMPAT[sk]
                                 if t in ('Mie', 'MieFar', 'Multisphere')])
                t = G.draw_theory(rng, tk)
                tha = b.emit(t[0], t[1], store='th')
                b.emit('calc', {'kind': rng.choice(['holo', 'field']),
                                'det': det(0), 'sc': h, 'th': tha,
                                'optics': None},
                       tags={'k': tk + '/' + sk, 'ref': True})
            else:
                self._emit_pair(b, rng, dets, center)
        return {'config': {'faults': faults, 'node': {}}, 'events': b.events}

    # ----------------------------------------------------------- pairs
    def _emit_pair(self, b, rng, dets, center):
        rel = rng.choice(['sphere_limit', 'sphere_limit', 'sphere_limit_lens',
                          'equal_axes', 'spin', 'reverse', 'mirror',
                          'reduce', 'reduce'])
        di = rng.randrange(2)
        d = dets[di]
        kind = rng.choice(['holo', 'field', 'scat_matrix'])
        cen = center()
        n = draw_index(rng, 0.3)
        if rng.random() < 0.2:
            # high-contrast, non-absorbing (titania, silicon in the infrared)
            n = rng.choice([2.4, 2.7, 3.2, 3.45])
        a = rfloat(rng, 0.01, 1.5, 4)        # size parameter 0.1 .. 19
        tm = {'kind': 'Tmatrix'}
        A = B = None
        if rel in ('sphere_limit', 'sphere_limit_lens'):
            sph = {'op': 'sphere', 'args': {'n': n, 'r': a, 'center': cen}}
            if rel == 'sphere_limit_lens':
                d = dets[0]
                kind = rng.choice(['holo', 'field'])
                a = rfloat(rng, 0.05, 0.8, 4)
                sph['args']['r'] = a
                lo = {'lens_angle': rfloat(rng, 0.4, 1.0, 3),
                      'quad_npts_theta': rng.choice([10, 14]),
                      'quad_npts_phi': rng.choice([10, 14])}
                if rng.random() < 0.2:
                    # the wrapper as it comes: 100 x 100 directions per call
                    lo = {'lens_angle': lo['lens_angle']}
                A = {'kind': kind, 'det': d, 'sc': sph, 'optics': None,
                     'th': {'kind': 'Lens', 'inner': tm, 'options': lo}}
                B = dict(A, th={'kind': 'Lens', 'options': lo, 'inner': {
                    'kind': 'Mie', 'options': {}}})
            else:
                A = {'kind': kind, 'det': d, 'sc': sph, 'th': tm,
                     'optics': None}
                B = dict(A, th={'kind': 'Mie', 'options': {
                    'compute_escat_radial': False,
                    'full_radial_dependence': False}})
        elif rel == 'equal_axes':
            rot = draw_rotation(rng, wild=False)
            A = {'kind': kind, 'det': d, 'th': tm, 'optics': None,
                 'sc': {'op': 'spheroid', 'args': {
                     'n': n, 'r': [a, a], 'rotation': rot, 'center': cen}}}
            B = dict(A, sc={'op': 'sphere',
                            'args': {'n': n, 'r': a, 'center': cen}})
        else:
            a = rfloat(rng, 0.05, 0.8, 4)
            base = draw_tm_scatterer(
                rng, cen, wild=False,
                sizeclass=rng.choice(['small', 'mid', 'mid', 'mid', 'mid',
                                      'mid', 'edge', 'huge']))
            while base['op'] == 'sphere':
                base = draw_tm_scatterer(rng, cen, wild=False,
                                         sizeclass='mid')
            rot = list(base['args']['rotation'])
            other = {'op': base['op'], 'args': dict(base['args'])}
            if rel == 'spin':
                other['args']['rotation'] = [
                    rfloat(rng, 0, 2 * math.pi, 4), rot[1], rot[2]]
            elif rel == 'reverse':
                # axis reversal: beta -> pi - beta, alpha -> alpha + pi
                al = rot[2] + math.pi
                if al >= 2 * math.pi:
                    al -= 2 * math.pi
                other['args']['rotation'] = [rot[0], math.pi - rot[1], al]
            elif rel == 'reduce':
                wild = draw_rotation(rng, wild=True)
                base['args']['rotation'] = wild
                al, be = reduce_angles(wild[2], wild[1])
                other['args']['rotation'] = [0, be, al]
            elif rel == 'mirror':
                # mirror in the x-z plane through the particle: alpha -> -alpha
                # (mod 2pi), detector y -> 2*cy - y; x-polarised light
                al = (2 * math.pi - rot[2]) % (2 * math.pi)
                other['args']['rotation'] = [rot[0], rot[1], al]
                m = rng.randint(2, 10)
                xs = [rfloat(rng, -1, 2, 4) for _ in range(m)]
                ys = [rfloat(rng, -1, 2, 4) for _ in range(m)]
                cy = cen[1]
                d = {'op': 'detector_points', 'args': {
                    'coords': {'x': xs, 'y': ys}, 'optics': OPT}}
                d2 = {'op': 'detector_points', 'args': {
                    'coords': {'x': xs,
                               'y': [round(2 * cy - y, 10) for y in ys]},
                    'optics': OPT}}
                kind = rng.choice(['holo', 'intensity'])
                A = {'kind': kind, 'det': d, 'sc': base, 'th': tm,
                     'optics': None}
                B = {'kind': kind, 'det': d2, 'sc': other, 'th': tm,
                     'optics': None}
            if A is None:
                A = {'kind': kind, 'det': d, 'sc': base, 'th': tm,
                     'optics': None}
                B = dict(A, sc=other)
        for c in (A, B):
            if c['kind'] == 'holo':
                c['scaling'] = 1.0
        b.emit('calc_multi', {'calcs': [A, B]},
               tags={'k': 'pair/' + rel, 'rel': rel, 'tm': True, 'ref': True})

    # -------------------------------------------------------------- oracle
    def oracle(self, ex):
        for ev in ex.run['events']:
            rec = ex.records.get(ev.get('id'))
            if not rec:
                continue
            tags = ev.get('tags', {})
            if ev['op'] not in ('calc', 'calc_multi'):
                continue
            ex.stats['oracle_sim'] += 1
            if rec['outcome'] == 'died':
                ex.add(violation(
                    'C10.no-abort', ev['id'],
                    'the interpreter terminated (%s) during %s %s: %s' % (
                        rec.get('status'), ev['op'], tags.get('k'),
                        _describe(ev)),
                    sig='C10.no-abort:' + _death_class(ex, ev)))
                continue
            if rec['outcome'] != 'ok':
                continue
            p = rec['payload']
            if ev['op'] == 'calc':
                if tags.get('tm') and O.is_da(p) and not O.all_finite(p) \
                        and G.calc_is_valid(ex, rec):
                    ex.add(violation(
                        'C10.finite', ev['id'],
                        'T-matrix calculation returned non-finite values: %s'
                        % _describe(ev), sig='C10.finite'))
                continue
            # pairs
            rel = tags.get('rel')
            if not isinstance(p, list) or len(p) != 2:
                continue
            a, bb = p
            a = _undict(a)
            bb = _undict(bb)
            if 'ok' not in a or 'ok' not in bb:
                # a documented failure on one side: both must fail alike for
                # same-solver relations (no oracle for the sphere limit)
                if rel in ('spin', 'reverse', 'reduce', 'mirror') and \
                        (('ok' in a) != ('ok' in bb)):
                    ex.add(violation(
                        'C10.symmetry', ev['id'],
                        '%s: one orientation computed, the equivalent one '
                        'raised (%s / %s)' % (rel, a.get('exc'),
                                              bb.get('exc')),
                        sig='C10.symmetry:' + rel + ':asym-exc'))
                continue
            va = np.asarray(a['ok']['values'])
            vb = np.asarray(bb['ok']['values'])
            ex.stats['oracle_sampled'] += 1
            if not (np.all(np.isfinite(va)) and np.all(np.isfinite(vb))):
                ex.add(violation('C10.finite', ev['id'],
                                 'non-finite values in %s pair' % rel,
                                 sig='C10.finite:' + rel))
                continue
            if va.shape != vb.shape:
                ex.add(violation('C10.symmetry', ev['id'],
                                 '%s: shapes differ' % rel,
                                 sig='C10.symmetry:' + rel))
                continue
            scale = max(float(np.max(np.abs(vb))), 1e-300)
            err = float(np.max(np.abs(va - vb))) / scale
            tol = TOL_SPHERE if rel in ('sphere_limit', 'sphere_limit_lens',
                                        'equal_axes') \
                else TOL_REL.get(rel, TOL_SYM)
            if rel == 'reverse' and _broadside(ev):
                # at beta = pi/2 exactly the solver moves the axis by its
                # 1e-7 rad regularisation to the *same* side for both
                # orientations, so they are not exact reversals of each
                # other: agreement to the size of that step only
                tol = 1e-4
                rel_key = 'reverse_broadside'
            else:
                rel_key = rel
            mx = ex.stats.setdefault('maxerr', {})
            mx[rel_key] = max(mx.get(rel_key, 0.0), err)
            if err > tol:
                ex.add(violation(
                    'C10.' + ('sphere-limit' if tol == TOL_SPHERE
                              else 'symmetry'), ev['id'],
                    '%s: results differ by %.3g (relative to max), '
                    'tolerance %.1g: %s' % (rel, err, tol, _describe(ev)),
                    sig='C10.%s:%s' % ('sphere-limit' if tol == TOL_SPHERE
                                       else 'symmetry', rel)))


def _broadside(ev):
    try:
        return any(abs(c['sc']['args']['rotation'][1] - math.pi / 2) < 1e-6
                   for c in ev['args']['calcs'])
    except (KeyError, TypeError, IndexError):
        return False


def _undict(p):
    if isinstance(p, dict) and '__dict__' in p:
        return {k: v for k, v in p['__dict__']}
    return p


def _describe(ev):
    import json
    a = ev.get('args', {})
    if ev['op'] == 'calc_multi':
        return json.dumps([c['sc'] for c in a['calcs']])[:300]
    return json.dumps(a)[:200]


def _death_class(ex, ev):
    """Specific signature of an interpreter death: angle range vs size."""
    scs = []
    a = ev.get('args', {})
    if ev['op'] == 'calc_multi':
        scs = [c['sc'].get('args', {}) for c in a['calcs']
               if isinstance(c.get('sc'), dict)]
    else:
        h = a.get('sc')
        rec = ex.records.get(ev['id']) or {}
        ra = rec.get('rargs') or a
        ref = (ra.get('sc') or {}).get('ref') if isinstance(ra.get('sc'), dict) \
            else None
        # the resolved ref is unknown when the node died before replying:
        # resolve by position among constructor events
        if ref is None and isinstance(h, dict) and 'h' in h:
            live = []
            for e in ex.run['events']:
                if e.get('id') == ev['id']:
                    break
                if e['op'] == 'RESTART':
                    live = []
                    continue
                r = ex.records.get(e.get('id')) or {}
                if r.get('outcome') == 'died':
                    live = []
                elif e.get('store') == h['h'] and r.get('outcome') == 'ok':
                    live.append(e)
            if live:
                scs = [live[h['i'] % len(live)]['args']]
        elif ref is not None and ref in ex.events_by_id:
            scs = [ex.events_by_id[ref]['args']]
    for s in scs:
        rot = s.get('rotation')
        if rot is not None:
            al, be = rot[2], rot[1]
            if al < 0 or al > 2 * math.pi or be < 0 or be > math.pi:
                return 'angle-out-of-range'
    return 'size-or-shape'


PROP = C10()
