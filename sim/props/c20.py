"""C20 - containment, layers, overlaps; overlap warning at every construction.

[SIM]   whether the n-th overlapping construction of a session warns depends
        on process-global warning state (filters, once-per-location
        registries): histories repeat identical constructions from one call
        site, interleaved with other warnings, scoped catch_warnings blocks,
        mutations, queries and restarts; exactly the overlapping warn=True
        constructions must emit one OverlapWarning, at every position.
[SAMPLED] analytic containment / layer / index / CSG / translation / bounding
        box / voxel volume / overlaps / rejections.
"""
import itertools
import math

import numpy as np

from sim import oracles as O
from sim.gen import Builder, rfloat, cplx
from sim.runner import violation


def _c(v):
    if isinstance(v, dict) and 'c' in v:
        return complex(*v['c'])
    return v


def rmax(m):
    r = m['r']
    return max(r) if isinstance(r, list) else r


def analytic_overlaps(members):
    out = []
    for i, j in itertools.combinations(range(len(members)), 2):
        d = math.dist(members[i]['center'], members[j]['center'])
        if d < rmax(members[i]) + rmax(members[j]):
            out.append([i, j])
    return out


def draw_cluster(rng):
    """A cluster recipe with a definite overlap status (no near-ties unless
    exactly representable)."""
    k = rng.randint(1, 8)
    style = rng.choice(['apart', 'overlap', 'touch', 'nested', 'mixed'])
    members = []
    if style == 'touch':
        # exactly touching, exactly representable numbers
        for j in range(k):
            members.append({'n': 1.5, 'r': 0.5, 'center': [float(j), 0.0, 2.0]})
        if k > 1 and rng.random() < 0.5:
            # ... or interpenetrating / separated by a hair (exactly
            # representable: powers of two), in units where a hair matters
            eps = rng.choice([2.0 ** -20, 2.0 ** -30, -2.0 ** -20])
            scale = rng.choice([1.0, 2.0 ** -20])
            members = [{'n': 1.5, 'r': 0.5 * scale,
                        'center': [(j - (eps if j else 0.0)) * scale, 0.0,
                                   2.0 * scale]} for j in range(2)]
        return members
    for j in range(k):
        r = rfloat(rng, 0.2, 0.8, 3)
        if rng.random() < 0.2:
            r = [round(r * 0.5, 3), r]
        if style == 'apart' or (style == 'mixed' and rng.random() < 0.5):
            c = [round(3.0 * j + rfloat(rng, -0.3, 0.3, 3), 3),
                 rfloat(rng, -0.3, 0.3, 3), rfloat(rng, 1, 3, 3)]
        elif style == 'nested':
            c = [rfloat(rng, -0.05, 0.05, 3), rfloat(rng, -0.05, 0.05, 3), 2.0]
        else:
            c = [round(0.45 * j + rfloat(rng, -0.1, 0.1, 3), 3),
                 rfloat(rng, -0.1, 0.1, 3), 2.0]
        n = rng.choice([1.5, 1.59, 1.33])
        members.append({'n': [n, n + 0.1] if isinstance(r, list) else n,
                        'r': r, 'center': c})
    # reject near-ties (|d - (ri+rj)| < 1e-6) by nudging
    for i, j in itertools.combinations(range(len(members)), 2):
        d = math.dist(members[i]['center'], members[j]['center'])
        if abs(d - (rmax(members[i]) + rmax(members[j]))) < 1e-6:
            members[j]['center'][2] += 0.01
    return members


def draw_shape(rng):
    """Inline single-domain or layered shape + analytic description."""
    kind = rng.choice(['sphere', 'layered', 'ellipsoid', 'layered_t'])
    c = [rfloat(rng, -2, 2, 3), rfloat(rng, -2, 2, 3), rfloat(rng, -2, 2, 3)]
    if kind == 'sphere':
        r = rng.choice([rfloat(rng, 0.1, 2, 4), rfloat(rng, 1e-3, 1e3, 6)])
        n = rng.choice([1.5, cplx(1.5, 0.1)])
        return {'op': 'sphere', 'args': {'n': n, 'r': r, 'center': c}}
    if kind in ('layered', 'layered_t'):
        nl = rng.randint(1, 4)
        rs = [rfloat(rng, 0.1, 0.5, 4)]
        for _ in range(nl - 1):
            rs.append(round(rs[-1] + rfloat(rng, 0.05, 0.5, 4), 4))
        ns = [round(1.3 + 0.1 * i + rfloat(rng, 0, 0.05, 3), 4)
              for i in range(nl)]
        if rng.random() < 0.3:
            ns[0] = cplx(ns[0], 0.01)
        if kind == 'layered':
            return {'op': 'sphere', 'args': {'n': ns, 'r': rs, 'center': c}}
        ts = [rs[0]] + [round(rs[i] - rs[i - 1], 4) for i in range(1, nl)]
        return {'op': 'layered_sphere', 'args': {'n': ns, 't': ts,
                                                 'center': c}}
    r = [rfloat(rng, 0.2, 2, 4) for _ in range(3)]
    return {'op': 'ellipsoid', 'args': {'n': 1.5, 'r': r, 'center': c,
                                        'rotation': [0, 0, 0]}}


def radii_of(spec):
    a = spec['args']
    if spec['op'] == 'layered_sphere':
        out, s = [], 0.0
        for t in a['t']:
            s = s + t
            out.append(s)
        # the implementation accumulates the same way (r[i+1] = r[i] + t)
        return out
    r = a['r']
    return list(r) if isinstance(r, list) else [r]


def analytic_domain(spec, p):
    """Domain number (0 outside) of point p, from the inequalities."""
    op = spec['op']
    a = spec['args']
    if op == 'translated':
        inner = a['sc']
        q = [p[i] - a['vec'][i] for i in range(3)]
        return analytic_domain(inner, q)
    if op == 'csg':
        d1 = analytic_domain(a['s1'], p) > 0
        d2 = analytic_domain(a['s2'], p) > 0
        k = a['kind']
        return int(d1 or d2 if k == 'Union' else
                   (d1 and not d2) if k == 'Difference' else (d1 and d2))
    c = a['center']
    if op == 'ellipsoid':
        s = sum(((p[i] - c[i]) / a['r'][i]) ** 2 for i in range(3))
        return 1 if s < 1 else 0
    d2 = sum((p[i] - c[i]) ** 2 for i in range(3))
    for i, r in enumerate(radii_of(spec)):
        if d2 < r * r:
            return i + 1
    return 0


def margin(spec, p):
    """Relative distance of p from the nearest decision surface (to skip
    points that rounding could put on either side)."""
    op = spec['op']
    a = spec['args']
    if op == 'translated':
        return margin(a['sc'], [p[i] - a['vec'][i] for i in range(3)])
    if op == 'csg':
        return min(margin(a['s1'], p), margin(a['s2'], p))
    c = a['center']
    if op == 'ellipsoid':
        s = math.sqrt(sum(((p[i] - c[i]) / a['r'][i]) ** 2 for i in range(3)))
        return abs(s - 1)
    d = math.sqrt(sum((p[i] - c[i]) ** 2 for i in range(3)))
    return min(abs(d - r) / r for r in radii_of(spec))


def surface_points(rng, spec, n):
    """Points 1e-9 (relative) either side of a surface + a random cloud."""
    pts = []
    base = spec
    shift = [0, 0, 0]
    while base['op'] == 'translated':
        shift = [shift[i] + base['args']['vec'][i] for i in range(3)]
        base = base['args']['sc']
    if base['op'] == 'csg':
        base = rng.choice([base['args']['s1'], base['args']['s2']])
        while base['op'] == 'translated':
            shift = [shift[i] + base['args']['vec'][i] for i in range(3)]
            base = base['args']['sc']
    a = base['args']
    c = [a['center'][i] + shift[i] for i in range(3)]
    scale = max(a['r']) if isinstance(a.get('r'), list) else a.get('r', 1.0)
    if base['op'] == 'layered_sphere':
        scale = sum(a['t'])
    for _ in range(n):
        u = [rng.gauss(0, 1) for _ in range(3)]
        nu = math.sqrt(sum(x * x for x in u)) or 1.0
        u = [x / nu for x in u]
        mode = rng.random()
        if mode < 0.5:
            if base['op'] == 'ellipsoid':
                rr = a['r']
                f = rng.choice([1 - 1e-9, 1 + 1e-9, 1 - 1e-6, 1 + 1e-6])
                pts.append([c[i] + f * rr[i] * u[i] for i in range(3)])
            else:
                r = rng.choice(radii_of(base))
                f = rng.choice([1 - 1e-9, 1 + 1e-9, 1 - 1e-6, 1 + 1e-6])
                pts.append([c[i] + f * r * u[i] for i in range(3)])
        else:
            d = rng.uniform(0, 1.6) * scale
            pts.append([c[i] + d * u[i] for i in range(3)])
    return pts


class C20:
    ID = 'C20'
    TITLE = 'Containment, layers and overlaps; overlap warning state'
    TIERS = {'quick': {'budget_s': 40.0}}

    def generate(self, rng, tier='quick'):
        b = Builder(rng)
        faults = {'F1': rng.random() < 0.3}
        pool = [draw_cluster(rng) for _ in range(rng.randint(2, 4))]
        nops = rng.randint(15, 45)
        for _ in range(nops):
            c = rng.random()
            if faults['F1'] and c < 0.03:
                b.restart()
                continue
            if c < 0.45:
                members = rng.choice(pool)
                warn = rng.random() < 0.8
                h_ = b.emit('spheres', {'members': members, 'warn': warn},
                            store='sc',
                            tags={'k': 'construct', 'overlapwarn': True})
                if rng.random() < 0.25:
                    # the collection moved as a whole: a copy is made; if its
                    # owner disabled the overlap warning it stays disabled
                    if rng.random() < 0.5:
                        b.emit('translated', {
                            'sc': h_, 'vec': [rfloat(rng, -3, 3, 3)
                                              for _ in range(3)],
                            'as_three': rng.random() < 0.5},
                            tags={'k': 'moved', 'moved': True,
                                  'src_warn': warn})
                    else:
                        b.emit('rotated', {
                            'sc': h_, 'angles': [rfloat(rng, 0, 3, 3)
                                                 for _ in range(3)]},
                            tags={'k': 'moved', 'moved': True,
                                  'src_warn': warn})
            elif c < 0.52:
                b.emit('emit_warning', {
                    'kind': rng.choice(['user', 'perf', 'dep', 'runtime']),
                    'text': rng.choice(['w', 'x', 'again'])})
            elif c < 0.545:
                b.emit('scoped_ignore', {})
            elif c < 0.57:
                # other library calls that change warning filters inside,
                # successfully or failing part-way
                b.emit('library_io_call', {
                    'kind': rng.choice(['good', 'noname', 'truncated',
                                        'yaml']),
                    'seed': rng.randrange(1000)}, tags={'k': 'library-io'})
            elif c < 0.64 and b.count('sc'):
                h, _ = b.pick('sc')
                m = rng.choice(rng.choice(pool))
                m = dict(m, center=[m['center'][0] + rfloat(rng, -1, 1, 3),
                                    m['center'][1], m['center'][2]])
                rr_ = max(m['r']) if isinstance(m['r'], list) else m['r']
                if rng.random() < 0.25:
                    # a non-sphere: must be refused and leave the collection
                    # as it was
                    b.emit('spheres_add', {'sc': h, 'member': {
                        'op': 'ellipsoid', 'args': {
                            'n': 1.5, 'r': [rr_, rr_ * 1.5, rr_ * 0.7],
                            'center': m['center']}}},
                        tags={'k': 'add-nonsphere', 'reject': True,
                              'unchanged': 'sc'})
                else:
                    b.emit('spheres_add', {'sc': h, 'member': {
                        'op': 'sphere', 'args': m}}, tags={'k': 'add'})
            elif c < 0.68 and b.count('sc'):
                # overlaps of a collection that may have been extended by
                # Spheres.add since it was built
                h, _ = b.pick('sc')
                b.emit('overlap_query', {'sc': h},
                       tags={'k': 'overlaps-live', 'live': True})
            elif c < 0.72:
                members = rng.choice(pool)
                b.emit('overlap_query',
                       {'sc': {'op': 'spheres',
                               'args': {'members': members, 'warn': False}}},
                       tags={'k': 'overlaps'})
            elif c < 0.92:
                spec = draw_shape(rng)
                cc = rng.random()
                if cc < 0.25:
                    spec = {'op': 'translated', 'args': {
                        'sc': spec, 'vec': [rfloat(rng, -3, 3, 3)
                                            for _ in range(3)],
                        'as_three': rng.random() < 0.5}}
                elif cc < 0.5 and spec['op'] in ('sphere', 'ellipsoid') \
                        and not isinstance(spec['args'].get('r'), list) \
                        or (cc < 0.5 and spec['op'] == 'ellipsoid'):
                    other = draw_shape(rng)
                    while other['op'] not in ('sphere', 'ellipsoid') or (
                            other['op'] == 'sphere' and
                            isinstance(other['args']['r'], list)):
                        other = draw_shape(rng)
                    # bring it close so that the set operation is non-trivial
                    oc = spec['args']['center']
                    other['args']['center'] = [
                        round(oc[i] + rfloat(rng, -0.6, 0.6, 3), 3)
                        for i in range(3)]
                    other['args']['n'] = spec['args']['n']
                    if rng.random() < 0.3:
                        # an operand that was itself moved into place
                        vec = [rfloat(rng, -2, 2, 3) for _ in range(3)]
                        other['args']['center'] = [
                            round(other['args']['center'][i] - vec[i], 3)
                            for i in range(3)]
                        other = {'op': 'translated', 'args': {
                            'sc': other, 'vec': vec,
                            'as_three': rng.random() < 0.5}}
                    spec = {'op': 'csg', 'args': {
                        'kind': rng.choice(['Union', 'Difference',
                                            'Intersection']),
                        's1': spec, 's2': other}}
                if spec['op'] == 'csg' and rng.random() < 0.35:
                    # a composite moved as a whole
                    spec = {'op': 'translated', 'args': {
                        'sc': spec, 'vec': [rfloat(rng, -3, 3, 3)
                                            for _ in range(3)],
                        'as_three': rng.random() < 0.5}}
                pts = surface_points(rng, spec, rng.randint(8, 30))
                b.emit('geom_query', {'sc': spec, 'points': pts,
                                      'background': rng.choice([1.0, 1.33])},
                       tags={'k': 'geom/' + spec['op']})
            elif c < 0.95:
                spec = draw_shape(rng)
                while spec['op'] != 'sphere' or \
                        isinstance(spec['args']['r'], list):
                    spec = draw_shape(rng)
                spec['args']['r'] = rfloat(rng, 0.5, 1.5, 3)
                b.emit('voxel_volume', {
                    'sc': spec,
                    'spacing': rng.choice([0.1, 0.05, 0.04])},
                    tags={'k': 'voxel'})
            else:
                bad = rng.choice(['nonsphere', 'negr', 'center2', 'centers',
                                  'center33', 'center0d', 'layered_negt',
                                  'layered_center2'])
                if bad == 'nonsphere':
                    b.emit('spheres', {'members': [
                        {'n': 1.5, 'r': 0.5, 'center': [0, 0, 0]},
                        {'op': 'ellipsoid', 'args': {
                            'n': 1.5, 'r': [1, 2, 3], 'center': [5, 5, 5]}}]},
                        tags={'k': 'reject', 'reject': True})
                elif bad == 'negr':
                    b.emit('sphere', {'n': 1.5, 'r': -rfloat(rng, 0.1, 2),
                                      'center': [0, 0, 0]},
                           tags={'k': 'reject', 'reject': True})
                elif bad == 'center2':
                    b.emit('sphere', {'n': 1.5, 'r': 0.5, 'center': [1, 2]},
                           tags={'k': 'reject', 'reject': True})
                elif bad == 'layered_negt':
                    # the layered description: a negative thickness gives
                    # negative radii
                    b.emit('layered_sphere', {
                        'n': [1.3, 1.5], 't': [-rfloat(rng, 0.1, 2), 0.5],
                        'center': [0, 0, 0]},
                        tags={'k': 'reject', 'reject': True})
                elif bad == 'layered_center2':
                    b.emit('layered_sphere', {
                        'n': [1.3, 1.5], 't': [0.5, 0.5], 'center': [1, 2]},
                        tags={'k': 'reject', 'reject': True})
                elif bad == 'center33':
                    # three numbers per coordinate: not a point
                    b.emit('sphere', {'n': 1.5, 'r': 0.5, 'center': {
                        'arr': [[0, 0, 0], [1, 1, 1], [2, 2, 2]]}},
                        tags={'k': 'reject', 'reject': True})
                elif bad == 'center0d':
                    b.emit('sphere', {'n': 1.5, 'r': 0.5,
                                      'center': {'arr': 5.0}},
                           tags={'k': 'reject', 'reject': True})
                else:
                    b.emit('sphere', {'n': 1.5, 'r': 0.5, 'center': 3.0},
                           tags={'k': 'reject', 'reject': True})
        return {'config': {'faults': faults, 'node': {}}, 'events': b.events}

    # -------------------------------------------------------------- oracle
    def oracle(self, ex):
        for ev in ex.run['events']:
            rec = ex.records.get(ev.get('id'))
            if not rec or rec['outcome'] in ('skip', 'died'):
                continue
            tags = ev.get('tags', {})
            op = ev['op']
            if tags.get('reject'):
                ex.stats['oracle_sampled'] += 1
                if rec['outcome'] != 'exc' or rec['exc'] != 'InvalidScatterer':
                    ex.add(violation(
                        'C20.reject', ev['id'],
                        '%s %r was not rejected with InvalidScatterer (%s %s)'
                        % (op, ev['args'], rec['outcome'], rec.get('exc')),
                        sig='C20.reject:' + op))
                elif tags.get('unchanged'):
                    ref = (rec.get('rargs') or {}).get(
                        tags['unchanged'], {}).get('ref')
                    if ref in [tuple(x) if isinstance(x, list) else x
                               for x in rec.get('mutated', [])]:
                        ex.add(violation(
                            'C20.reject', ev['id'],
                            'a refused %s nevertheless changed the collection'
                            % op, sig='C20.reject:%s:changed' % op))
                continue
            if tags.get('moved'):
                if rec['outcome'] == 'ok' and not tags.get('src_warn'):
                    ex.stats['oracle_sim'] += 1
                    got = sum(1 for w in rec.get('warnings', [])
                              if w[0] == 'OverlapWarning')
                    if got:
                        ex.add(violation(
                            'C20.warning', ev['id'],
                            '%s of a collection built with warn=False '
                            'emitted %d OverlapWarning(s)' % (op, got),
                            sig='C20.warning:moved'))
                continue
            if op == 'spheres' and tags.get('overlapwarn'):
                if rec['outcome'] != 'ok':
                    continue
                ex.stats['oracle_sim'] += 1
                members = ev['args']['members']
                expect = bool(analytic_overlaps(members)) and \
                    ev['args'].get('warn', True)
                got = sum(1 for w in rec.get('warnings', [])
                          if w[0] == 'OverlapWarning')
                if got != (1 if expect else 0):
                    ex.add(violation(
                        'C20.warning', ev['id'],
                        'construction with overlaps=%s warn=%s emitted %d '
                        'OverlapWarning(s), expected %d' % (
                            bool(analytic_overlaps(members)),
                            ev['args'].get('warn', True), got,
                            1 if expect else 0),
                        sig='C20.warning:' + ('missing' if got == 0
                                              else 'extra')))
            elif op == 'overlap_query' and rec['outcome'] == 'ok':
                ex.stats['oracle_sampled'] += 1
                if tags.get('live'):
                    ref = rec['rargs']['sc'].get('ref')
                    cev = ex.events_by_id.get(ref)
                    if cev is None or cev['op'] != 'spheres':
                        continue
                    members = list(cev['args']['members'])
                    for e2 in ex.run['events']:
                        if e2.get('id') == ev['id']:
                            break
                        r2 = ex.records.get(e2.get('id'))
                        if e2.get('op') == 'spheres_add' and r2 and \
                                r2['outcome'] == 'ok' and \
                                r2['rargs']['sc'].get('ref') == ref:
                            members.append(e2['args']['member']['args'])
                    ex.stats['oracle_sim'] += 1
                else:
                    members = ev['args']['sc']['args']['members']
                want = analytic_overlaps(members)
                p = dict(rec['payload']['__dict__'])
                if sorted(map(tuple, p['overlaps'])) != \
                        sorted(map(tuple, want)):
                    ex.add(violation(
                        'C20.overlaps', ev['id'],
                        'overlaps %r, analytic %r' % (p['overlaps'], want),
                        sig='C20.overlaps:pairs'))
                    continue
                best = None
                for i, j in itertools.combinations(range(len(members)), 2):
                    v = rmax(members[i]) + rmax(members[j]) - math.dist(
                        members[i]['center'], members[j]['center'])
                    best = v if best is None else max(best, v)
                lo = p['largest_overlap']
                if best is not None and best > 0 and \
                        abs(lo - best) > 1e-12 * max(1, abs(best)):
                    ex.add(violation(
                        'C20.overlaps', ev['id'],
                        'largest_overlap %r, analytic %r' % (lo, best),
                        sig='C20.overlaps:largest'))
                elif (best is None or best <= 0) and not (
                        lo == 0 or (best is not None and
                                    abs(lo - best) <= 1e-12)):
                    ex.add(violation(
                        'C20.overlaps', ev['id'],
                        'largest_overlap %r for non-overlapping spheres '
                        '(analytic max %r)' % (lo, best),
                        sig='C20.overlaps:largest'))
            elif op == 'geom_query' and rec['outcome'] == 'ok':
                self._check_geom(ex, ev, rec)
            elif op == 'voxel_volume' and rec['outcome'] == 'ok':
                ex.stats['oracle_sampled'] += 1
                p = dict(rec['payload']['__dict__'])
                r = ev['args']['sc']['args']['r']
                sp = ev['args']['spacing']
                vol = p['inside'] * sp ** 3
                ana = 4 / 3 * math.pi * r ** 3
                if abs(vol - ana) / ana > 4 * sp / r:
                    ex.add(violation(
                        'C20.voxel', ev['id'],
                        'voxel volume %.4g vs analytic %.4g (spacing %g)' % (
                            vol, ana, sp), sig='C20.voxel'))

    def _check_geom(self, ex, ev, rec):
        spec = ev['args']['sc']
        pts = ev['args']['points']
        p = dict(rec['payload']['__dict__'])
        contains = np.asarray(p['contains']).reshape(-1)
        dom = np.asarray(p['in_domain']).reshape(-1)
        idx = p.get('index_at')
        bounds = p.get('bounds')
        bg = ev['args'].get('background', 1.0)
        ex.stats['oracle_sampled'] += 1
        base = spec
        while base['op'] == 'translated':
            base = base['args']['sc']
        for i, pt in enumerate(pts):
            if margin(spec, pt) < 1e-12:
                continue
            d = analytic_domain(spec, pt)
            if bool(contains[i]) != (d > 0):
                ex.add(violation(
                    'C20.contains', ev['id'],
                    '%s: point %r reported %s, analytic inequality says %s'
                    % (spec['op'], pt, bool(contains[i]), d > 0),
                    sig='C20.contains:' + base['op']))
                return
            if base['op'] != 'csg' and int(dom[i]) != d:
                ex.add(violation(
                    'C20.layer', ev['id'],
                    '%s: point %r reported in layer %d, analytic layer %d'
                    % (spec['op'], pt, int(dom[i]), d),
                    sig='C20.layer:' + base['op']))
                return
            if idx is not None and base['op'] != 'csg':
                ns = base['args']['n']
                ns = ns if isinstance(ns, list) else [ns]
                want = _c(ns[d - 1]) if d > 0 else bg
                got = np.asarray(idx).reshape(-1)[i]
                if complex(got) != complex(want):
                    ex.add(violation(
                        'C20.index', ev['id'],
                        '%s: index at %r is %r, expected %r' % (
                            spec['op'], pt, got, want),
                        sig='C20.index:' + base['op']))
                    return
            if bounds is not None and d > 0:
                for ax in range(3):
                    if not (bounds[ax][0] <= pt[ax] <= bounds[ax][1]):
                        ex.add(violation(
                            'C20.bounds', ev['id'],
                            '%s: interior point %r outside the bounding box '
                            '%r' % (spec['op'], pt, bounds),
                            sig='C20.bounds:' + base['op']))
                        return


PROP = C20()
