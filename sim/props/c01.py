"""C01 - hologram formation; results depend only on the arguments.

[SIM]   pristine-node refinement of every calculation in a random history
        (re-ordering, repetition, restarts, foreign RNG draws, solver
        failures, raising calls), purity of every shared object.
[SAMPLED] H = sum_xy |s F + p|^2, I = sum_xy |F|^2, H(s=0) = 1, finiteness,
        coordinates and metadata of the result.
"""
import json

import numpy as np

from sim import oracles as O
from sim.gen import Builder, rfloat, draw_optics
from sim.props import scatgen as G
from sim.runner import violation

EPS = np.finfo(float).eps


class C01:
    ID = 'C01'
    TITLE = 'Hologram = |scaling*field + reference|^2; depends only on args'

    # ------------------------------------------------------------ generate
    def generate(self, rng, tier='quick'):
        b = Builder(rng)
        sc_kinds = rng.sample(G.SC_KINDS, rng.randint(2, 4))
        th_pool = rng.sample(G.TH_KINDS, rng.randint(3, 6))
        faults = {k: (rng.random() < p) for k, p in
                  (('F1', 0.25), ('F6', 0.4), ('F8', 0.4), ('F9', 0.25))}
        if rng.random() < 0.33:
            faults = {k: False for k in faults}
        maxside = rng.choice([6, 10, 16])
        dets = [G.draw_detector(rng, maxside=maxside)
                for _ in range(rng.randint(1, 3))]
        # tuples of (detector, scatterer, theory, per-call optics)
        tuples = []
        recipes = {'det': dets, 'sc': [], 'th': []}
        for _ in range(rng.randint(3, 6)):
            di = rng.randrange(len(dets))
            dmeta = dets[di][2]
            sk = rng.choice(sc_kinds)
            compatible = [t for t in G.COMPAT[sk] if t in th_pool] or \
                [rng.choice(G.COMPAT[sk])]
            tk = rng.choice(compatible)
            if rng.random() < 0.08:
                tk = rng.choice(G.TH_KINDS)        # possibly incompatible
            if dmeta['kind'] == 'points_sph' and tk in G.LENS_KINDS:
                tk = 'auto'
            if dmeta.get('zvar') and tk in G.LENS_KINDS:
                tk = 'auto'
            big = rng.random() < 0.15
            sc = G.draw_scatterer(rng, sk, dmeta['extent'], dmeta['origin'],
                                  big=big, grid=dmeta if dmeta['kind'] ==
                                  'grid' else None)
            if tk in ('MieLens', 'AberratedMieLens') and \
                    sc[0] == 'sphere' and rng.random() < 0.2:
                # far from focus: tens of micrometres of defocus ...
                sc[1]['center'][2] = rfloat(rng, 35, 110, 3)
            elif tk in ('MieLens', 'AberratedMieLens') and \
                    sc[0] == 'sphere' and rng.random() < 0.15:
                # ... or far off to the side of the field of view
                sc[1]['center'][0] = round(
                    sc[1]['center'][0] + rfloat(rng, 35, 90, 3), 3)
            if rng.random() < 0.05:                 # invalid scatterer
                sc = ('sphere', {'n': 1.5, 'r': 0.5, 'center': None},
                      {'kind': 'sphere'})
            recipes['sc'].append(sc)
            th = G.draw_theory(rng, tk)
            thi = None
            if th is not None:
                recipes['th'].append(th)
                thi = len(recipes['th']) - 1
            pol = [1, 0] if tk in G.NEEDS_X_POL or (
                tk == 'auto' and sk in ('spheroid', 'cylinder')) else None
            stored = dmeta['optics']
            if stored is not None and pol is not None:
                # stored polarization may be arbitrary: override per call
                percall = {'illum_polarization': pol}
            elif stored is None:
                percall = draw_optics(rng, pol)
                if rng.random() < 0.06:
                    percall.pop(rng.choice(sorted(percall)))   # missing
            else:
                percall = None
                if rng.random() < 0.4:
                    percall = draw_optics(rng, pol)
                    for k in list(percall):
                        if rng.random() < 0.4:
                            percall.pop(k)
                    percall = percall or None
            tuples.append({'far': bool(dmeta.get('far')),
                           'det': di, 'sc': len(recipes['sc']) - 1,
                           'th': thi, 'thkind': tk, 'optics': percall,
                           'scaling': rng.choice(
                               [1.0, 0.8, rfloat(rng, 0.1, 2.0, 4)]),
                           'sckind': sk})
        # near-duplicates: the same calculation with exactly one argument
        # changed (index, radius, position, or one optics value), so that
        # state keyed on too little of the input shows up as a wrong value
        for _ in range(rng.randint(0, 3)):
            t0 = rng.choice(tuples)
            op0, a0, m0 = recipes['sc'][t0['sc']]
            t1 = dict(t0)
            what = rng.choice(['n', 'r', 'center', 'optics', 'optics'])
            if op0 == 'sphere' and what in ('n', 'r', 'center') and \
                    a0.get('center') is not None:
                a1 = json.loads(json.dumps(a0))
                if what == 'n':
                    a1['n'] = G.draw_index(rng) if not isinstance(
                        a0['n'], list) else [G.draw_index(rng, 0.1)
                                             for _ in a0['n']]
                elif what == 'r' and not isinstance(a0['r'], list):
                    a1['r'] = rfloat(rng, 0.2, 0.9, 4)
                else:
                    a1['center'] = [a0['center'][0], a0['center'][1],
                                    round(a0['center'][2] + rfloat(
                                        rng, 0.5, 3, 3), 4)]
                recipes['sc'].append((op0, a1, m0))
                t1['sc'] = len(recipes['sc']) - 1
            else:
                dm = recipes['det'][t0['det']][2]
                base = dict(dm.get('optics') or {})
                base.update(t0['optics'] or {})
                if not base.get('illum_wavelen') or \
                        not base.get('medium_index'):
                    continue
                o1 = dict(t0['optics'] or {})
                kk = rng.choice(['illum_wavelen', 'medium_index'])
                o1[kk] = round(base[kk] * rng.choice([0.9, 1.1, 1.25]), 6)
                t1['optics'] = o1
            tuples.append(t1)
        nops = rng.randint(12, 40 if tier == 'quick' else 60)
        handles = {}
        # multi-channel scenario: one calculation with 2-3 illumination
        # channels and the corresponding single-channel calculations, spread
        # over the history
        mc_ops = []
        if rng.random() < 0.3:
            chans = rng.choice([['red', 'green'], ['red', 'green', 'blue']])
            shp = [rng.randint(2, 8), rng.randint(2, 8)]
            spc = rng.choice([0.1, 0.13])
            wl = {c_: rfloat(rng, 0.4, 0.7, 3) for c_ in chans}
            mi = rng.choice([1.33, 1.0])
            pol = rng.choice([[1, 0], [0, 1], [0.6, 0.8]])
            skm = rng.choice(['sphere', 'sphere', 'layered', 'spheres'])
            scm = G.draw_scatterer(rng, skm, [shp[0] * spc, shp[1] * spc])
            recipes['sc'].append(scm)
            scm_i = len(recipes['sc']) - 1
            recipes['det'].append((
                'detector_grid', {'shape': shp, 'spacing': spc, 'name': None,
                                  'extra_dims': {'illumination': chans},
                                  'optics': None, 'shift': None},
                {'kind': 'grid_mc', 'optics': None}))
            mcd_i = len(recipes['det']) - 1
            recipes['det'].append((
                'detector_grid', {'shape': shp, 'spacing': spc, 'name': None,
                                  'optics': None, 'shift': None},
                {'kind': 'grid', 'optics': None}))
            scd_i = len(recipes['det']) - 1
            thm = rng.choice(['auto', 'class:Mie'])
            kindm = rng.choice(['holo', 'field', 'intensity'])
            items = list(wl.items())
            rng.shuffle(items)
            grp = 'mc%d' % rng.randrange(10 ** 6)
            mc_ops.append(('mc', mcd_i, scm_i, thm, kindm,
                           {'medium_index': mi, 'illum_polarization': pol,
                            'illum_wavelen': {'dict': [list(i) for i in items]}},
                           {'mc': grp}))
            for c_ in chans:
                mc_ops.append(('sc', scd_i, scm_i, thm, kindm,
                               {'medium_index': mi, 'illum_polarization': pol,
                                'illum_wavelen': wl[c_]},
                               {'mc_single': grp, 'channel': c_}))
            rng.shuffle(mc_ops)

        def ensure(kind, i):
            key = (kind, i)
            if key not in handles:
                op, args, meta = recipes[kind][i]
                handles[key] = b.emit(op, args, store=kind, meta=meta)
            return handles[key]

        kinds_w = ['field'] * 3 + ['holo'] * 4 + ['intensity'] * 2 + \
            ['holo0'] + ['scat_matrix'] + ['cross_sections']
        for n in range(nops):
            if mc_ops and rng.random() < 0.25:
                _, di_, si_, th_, kd_, opt_, tg_ = mc_ops.pop()
                args = {'kind': kd_, 'det': ensure('det', di_),
                        'sc': ensure('sc', si_), 'th': th_, 'optics': opt_}
                if kd_ == 'holo':
                    args['scaling'] = 0.9
                tags = {'k': 'multichannel', 'calc': True, 'ref': True}
                tags.update(tg_)
                b.emit('calc', args, tags=tags)
                continue
            t = rng.choice(tuples)
            c = rng.random()
            if faults['F1'] and c < 0.04:
                b.restart()
                handles.clear()
                continue
            if faults['F6'] and c < 0.12:
                if rng.random() < 0.5:
                    b.emit('rng_draws', {'k': rng.randint(1, 50)})
                else:
                    b.emit('rng_reseed', {'seed': rng.randrange(2 ** 31)})
                continue
            armed = False
            if faults['F8'] and t['thkind'] in ('Multisphere', 'auto') and \
                    t['sckind'] == 'spheres' and c < 0.5:
                b.emit('arm_solver_fault',
                       {'n': 0, 'mode': rng.choice(['noconv', 'nan']),
                        'count': rng.choice([1, 1, 2, 3])})
                armed = True
            interrupted = False
            if faults['F9'] and not armed and rng.random() < 0.12:
                # cancellation inside the n-th forward evaluation of the
                # next calculation (superpositions / channels have several)
                b.emit('arm_interrupt', {'n': rng.randint(0, 2)})
                interrupted = True
            kind = rng.choice(kinds_w)
            if t['far']:
                # far-field point detectors (r = infinity) are for
                # scattering matrices only (documented)
                kind = 'scat_matrix'
            det = ensure('det', t['det'])
            sc = ensure('sc', t['sc'])
            if t['th'] is not None:
                th = ensure('th', t['th'])
            elif t['thkind'] == 'classMie':
                th = 'class:Mie'
            else:
                th = 'auto'
            args = {'kind': kind, 'det': det, 'sc': sc, 'th': th,
                    'optics': t['optics']}
            if kind == 'holo':
                args['scaling'] = t['scaling']
            if kind == 'holo0':
                args['kind'] = 'holo'
                args['scaling'] = 0.0
            if kind == 'cross_sections' and not (
                    t['sckind'] in ('sphere', 'layered') and
                    t['thkind'] in ('Mie', 'MieFar', 'auto', 'classMie')):
                kind = 'holo'
                args['kind'] = 'holo'
                args['scaling'] = t['scaling']
            if kind == 'cross_sections':
                args['det'] = None
                o = dict(t['optics'] or {})
                stored = recipes['det'][t['det']][2]['optics'] or {}
                for k, v in stored.items():
                    o.setdefault(k, v)
                args['optics'] = o
            tags = {'k': t['thkind'] + '/' + t['sckind'], 'calc': True}
            if armed:
                tags['armed'] = True
            elif interrupted:
                tags['interrupted'] = True
            else:
                tags['ref'] = True
            b.emit('calc', args, tags=tags)
            if armed or interrupted:
                b.emit('disarm', {})
        return {'config': {'faults': faults, 'sc_kinds': sc_kinds,
                           'th_pool': th_pool,
                           'node': {'epoch': 1.6e9 + rng.randrange(10 ** 6),
                                    'tick': rfloat(rng, 0.001, 5.0)}},
                'events': b.events}

    # -------------------------------------------------------------- oracle
    def oracle(self, ex):
        groups = {}
        for ev in ex.run['events']:
            if ev.get('op') != 'calc':
                continue
            rec = ex.records.get(ev['id'])
            if not rec or rec['outcome'] == 'skip':
                continue
            tags = ev.get('tags', {})
            ra = rec.get('rargs') or {}
            # --- calls that raise / die
            if rec['outcome'] == 'died':
                ex.add(violation(
                    'C01.died', ev['id'],
                    'interpreter terminated (%s) during calc %s' % (
                        rec.get('status'), tags.get('k')),
                    sig='C01.died:' + str(tags.get('k'))))
                continue
            if tags.get('interrupted'):
                if (rec.get('faults') or {}).get('interrupt') and not (
                        rec['outcome'] == 'exc' and
                        rec['exc'] == 'KeyboardInterrupt'):
                    ex.add(violation(
                        'C01.cancel', ev['id'],
                        'a KeyboardInterrupt raised inside a forward '
                        'evaluation did not propagate (%s %s)' % (
                            rec['outcome'], rec.get('exc')),
                        sig='C01.cancel:swallowed'))
                continue
            valid = G.calc_is_valid(ex, rec)
            fired = bool((rec.get('faults') or {}).get('solver'))
            if rec['outcome'] == 'exc':
                if tags.get('armed') and fired:
                    ex.stats['oracle_sim'] += 1
                    if rec['exc'] not in ('MultisphereFailure',):
                        ex.add(violation(
                            'C01.solver-fault', ev['id'],
                            'armed solver failure surfaced as %s: %s' % (
                                rec['exc'], rec['msg']),
                            sig='C01.solver-fault:' + rec['exc']))
                elif valid and rec['exc'] in UNEXPECTED_EXC:
                    ex.add(violation(
                        'C01.accepts', ev['id'],
                        'calc %s %s raised %s: %s' % (
                            ra.get('kind'), tags.get('k'), rec['exc'],
                            rec['msg'][:120]),
                        sig='C01.accepts:%s:%s' % (
                            rec['exc'], _sigmsg(rec['msg']))))
                continue
            p = rec['payload']
            if not O.is_da(p):
                continue
            # --- finite
            ex.stats['oracle_sampled'] += 1
            if tags.get('armed') and fired:
                # a fault fired, yet the call returned: must not be garbage
                if not O.all_finite(p):
                    ex.add(violation(
                        'C01.solver-fault', ev['id'],
                        'armed solver failure returned non-finite values',
                        sig='C01.solver-fault:nonfinite'))
                continue
            if not valid:
                continue
            if not O.all_finite(p):
                ex.add(violation(
                    'C01.finite', ev['id'],
                    'calc %s %s returned non-finite values' % (
                        ra.get('kind'), tags.get('k')),
                    sig='C01.finite:' + str(tags.get('k'))))
                continue
            if ra.get('kind') in ('field', 'holo', 'intensity'):
                self._check_meta(ex, ev, rec)
                key = json.dumps({k: ra.get(k) for k in
                                  ('det', 'sc', 'th', 'optics')},
                                 sort_keys=True)
                groups.setdefault(key, []).append((ev, rec))
        # --- multi-channel = stacked single-channel
        mcs, singles = {}, {}
        for ev in ex.run['events']:
            tg = ev.get('tags', {})
            rec = ex.records.get(ev.get('id'))
            if not rec or rec['outcome'] != 'ok' or not O.is_da(
                    rec.get('payload')):
                continue
            if 'mc' in tg:
                mcs[tg['mc']] = (ev, rec)
            elif 'mc_single' in tg:
                singles.setdefault(tg['mc_single'], {})[tg['channel']] = rec
        for g_, (ev, rec) in mcs.items():
            p = rec['payload']
            if 'illumination' not in p['dims']:
                ex.add(violation('C01.channels', ev['id'],
                                 'multi-channel result has no illumination '
                                 'dimension', sig='C01.channels:dims'))
                continue
            labels = [str(x) for x in np.asarray(
                p['coords']['illumination']['values']).tolist()]
            ax = p['dims'].index('illumination')
            for ch, srec in singles.get(g_, {}).items():
                if ch not in labels:
                    continue
                ex.stats['oracle_sampled'] += 1
                xc = ex.stats.setdefault('extra', {})
                xc['channels_compared'] = xc.get('channels_compared', 0) + 1
                sl = np.take(p['values'], labels.index(ch), axis=ax)
                dims = [d for d in p['dims'] if d != 'illumination']
                sp_ = srec['payload']
                try:
                    sv = np.transpose(sp_['values'],
                                      [sp_['dims'].index(d) for d in dims])
                except ValueError:
                    continue
                err = float(np.max(np.abs(sl - sv))) if sl.shape == sv.shape \
                    else float('inf')
                if not err <= 1e-12 * max(1.0, float(np.max(np.abs(sv)))):
                    ex.add(violation(
                        'C01.channels', ev['id'],
                        'channel %r of the multi-channel %s differs from the '
                        'single-channel calculation by %.3g' % (
                            ch, rec['rargs']['kind'], err),
                        sig='C01.channels:value'))
                    break
        # --- per-group identities
        for key, items in groups.items():
            fields = [(e, r) for e, r in items
                      if r['rargs']['kind'] == 'field']
            if not fields:
                continue
            fev, frec = fields[0]
            try:
                fmap, frest = O.point_map(frec['payload'])
            except Exception as e:
                continue
            pol = self._pol(ex, frec)
            if pol is None:
                continue
            for ev, rec in items:
                k = rec['rargs']['kind']
                if k == 'field':
                    continue
                if 'illumination' in rec['payload']['dims'] or \
                        'illumination' in frec['payload']['dims']:
                    continue
                hmap, hrest = O.point_map(rec['payload'])
                ex.stats['oracle_sampled'] += 1
                if set(hmap) != set(fmap):
                    ex.add(violation(
                        'C01.coords', ev['id'],
                        '%s and field of the same detector lie on different '
                        'points' % k, sig='C01.coords:' + k))
                    continue
                s = rec['rargs'].get('scaling', 1.0)
                s = 1.0 if s is None else s
                worst = 0.0
                for pt, fv in fmap.items():
                    f = np.asarray(fv).reshape(-1)[:2]
                    if k == 'holo':
                        ref = float(np.sum(np.abs(s * f + pol[:2]) ** 2))
                    else:
                        ref = float(np.sum(np.abs(f) ** 2))
                    got = float(np.asarray(hmap[pt]).reshape(-1)[0])
                    err = abs(got - ref) / max(1.0, abs(ref))
                    worst = max(worst, err)
                if worst > 64 * EPS:
                    ex.add(violation(
                        'C01.formula', ev['id'],
                        '%s differs from the value recomputed from the '
                        'field by %.3g (relative), scaling=%r' % (k, worst, s),
                        sig='C01.formula:' + k))

    def _pol(self, ex, rec):
        ra = rec['rargs']
        o = ra.get('optics') or {}
        pol = o.get('illum_polarization')
        if pol is None:
            det = ex.events_by_id.get(ra['det']['ref'])
            if det is None:
                return None
            pol = (det['args'].get('optics') or {}).get('illum_polarization')
        if pol is None or isinstance(pol, dict):
            return None
        return O.normalized_pol(pol)

    def _check_meta(self, ex, ev, rec):
        """Result lies on the detector's coordinates and carries its
        metadata updated by the passed optics."""
        ra = rec['rargs']
        dref = ra['det']['ref']
        drec = ex.records.get(dref)
        dev = ex.events_by_id.get(dref)
        if not drec or drec.get('outcome') != 'ok' or dev is None or \
                dev['op'] not in ('detector_grid', 'detector_points'):
            return
        dp = drec['payload']
        p = rec['payload']
        ex.stats['oracle_sampled'] += 1
        # coordinates
        dpts, _, _, dnames = O.as_points(dp)
        rpts, _, _, rnames = O.as_points(p)
        if rnames == ('point',):
            # point detectors: results are positional (point i <-> i)
            same = (dp['dims'] == ['point'] and len(rpts) == len(dpts) and
                    bool(np.all(rpts[:, 0] == np.arange(len(dpts)))))
        else:
            same = (dnames == rnames and dpts.shape == rpts.shape and
                    _same_pointset(dpts, rpts))
        if not same:
            ex.add(violation(
                'C01.coords', ev['id'],
                'result of %s does not lie on exactly the detector '
                'coordinates' % ra['kind'], sig='C01.coords:' + ra['kind']))
            return
        if ra['kind'] in ('holo', 'intensity') and \
                'illumination' not in p['dims']:
            if sorted(p['dims']) != sorted(dp['dims']) or \
                    sorted(p['values'].shape) != sorted(dp['values'].shape):
                ex.add(violation(
                    'C01.coords', ev['id'],
                    'result dims %s %s differ from detector dims %s %s' % (
                        p['dims'], p['values'].shape, dp['dims'],
                        dp['values'].shape), sig='C01.coords:dims'))
                return
        # metadata
        expect = dict(O.attrs_of(dp))
        o = ra.get('optics') or {}
        rattrs = O.attrs_of(p)
        for k in ('medium_index', 'illum_wavelen', 'noise_sd'):
            want = o.get(k, None)
            if want is None:
                want = expect.get(k)
            got = rattrs.get(k)
            if isinstance(want, dict) or isinstance(got, dict):
                continue
            if not _same_scalar(want, got):
                ex.add(violation(
                    'C01.metadata', ev['id'],
                    'result attr %s = %r, expected %r' % (k, got, want),
                    sig='C01.metadata:' + k))
                return
        pol = o.get('illum_polarization')
        want = O.normalized_pol(pol) if pol is not None and \
            not isinstance(pol, dict) else None
        got = rattrs.get('illum_polarization')
        if want is not None:
            gv = got['values'] if O.is_da(got) else None
            if gv is not None and gv.ndim == 2 and O.is_da(got) and \
                    'illumination' in got['dims']:
                # broadcast over the illumination channels
                gv2 = np.moveaxis(gv, got['dims'].index('vector'), -1)
                if np.max(np.abs(gv2 - want)) <= 4 * EPS:
                    gv = want
            if gv is None or gv.shape != (3,) or \
                    np.max(np.abs(gv - want)) > 4 * EPS:
                ex.add(violation(
                    'C01.metadata', ev['id'],
                    'result polarization %r, expected normalised %r' % (
                        gv, want), sig='C01.metadata:illum_polarization'))
                return
        elif expect.get('illum_polarization') is not None and pol is None:
            ev_ = expect['illum_polarization']
            if O.is_da(ev_) and O.is_da(got):
                if ev_['values'].tobytes() != got['values'].tobytes():
                    ex.add(violation(
                        'C01.metadata', ev['id'],
                        'result polarization differs from detector\'s',
                        sig='C01.metadata:illum_polarization'))
                    return
        # name
        if p.get('name') != dp.get('name'):
            ex.add(violation(
                'C01.metadata', ev['id'],
                'result name %r != detector name %r' % (
                    p.get('name'), dp.get('name')), sig='C01.metadata:name'))


UNEXPECTED_EXC = {
    'AttributeError', 'TypeError', 'NameError', 'IndexError', 'KeyError',
    'UnboundLocalError', 'ZeroDivisionError', 'AssertionError',
    'RecursionError', 'ImportError', 'ModuleNotFoundError',
    'SystemError', 'FloatingPointError',
    'OverflowError', 'MemoryError',
}


def _sigmsg(msg):
    import re
    m = re.sub(r'[0-9.e+-]{3,}', '#', msg)
    return m[:60]


def _same_pointset(a, b):
    ka = sorted(map(tuple, np.nan_to_num(a, nan=-1e300).tolist()))
    kb = sorted(map(tuple, np.nan_to_num(b, nan=-1e300).tolist()))
    return ka == kb


def _same_scalar(want, got):
    if want is None or got is None:
        return want is None and got is None
    if O.is_da(got):
        got = got['values']
    if O.is_da(want):
        want = want['values']
    if isinstance(want, dict) and 'c' in want:
        want = complex(*want['c'])
    if isinstance(got, dict) and '__npscalar__' in got:
        got = got['v']
    try:
        return bool(np.all(np.asarray(want) == np.asarray(got)))
    except Exception:
        return False


PROP = C01()
