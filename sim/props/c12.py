"""C12 - posterior = prior x Gaussian likelihood, exactly as documented.

[SIM]   "no hologram is computed" is an effect (counting calc_func seam);
        pixel subsets draw from the global RNG at every evaluation; and the
        posterior is what samplers ship to worker processes: a simulated
        pool (real forked workers with their own histories, pickled bound
        methods, seeded dispatch order, duplicate deliveries, worker deaths
        with retry, solver failure inside a worker) must return for every
        vector exactly the master's value.
[SAMPLED] closed-form Gaussian posterior reference for local evaluations.
"""
import math

import numpy as np

from sim import oracles as O
from sim.gen import Builder, rfloat
from sim.runner import violation

LN2PI = math.log(2 * math.pi)


def prior_spec(rng, name, center, width, kind=None):
    kind = kind or rng.choice(['uniform', 'uniform', 'gaussian', 'bounded'])
    if kind == 'uniform':
        return {'ctor': 'uniform', 'args': {
            'lo': round(center - width, 6), 'hi': round(center + width, 6),
            'name': name}}
    if kind == 'gaussian':
        return {'ctor': 'gaussian', 'args': {'mu': center,
                                             'sd': round(width / 2, 6),
                                             'name': name}}
    return {'ctor': 'bounded_gaussian', 'args': {
        'mu': center, 'sd': round(width / 2, 6),
        'lo': round(center - width, 6), 'hi': round(center + width, 6),
        'name': name}}


def lnprob_ref(spec, x):
    a = spec['args']
    if spec['ctor'] == 'uniform':
        if x < a['lo'] or x > a['hi']:
            return -math.inf
        return math.log(1 / (a['hi'] - a['lo']))
    g = -math.log(a['sd'] * math.sqrt(2 * math.pi)) - \
        (x - a['mu']) ** 2 / (2 * a['sd'] ** 2)
    if spec['ctor'] == 'gaussian':
        return g
    if x < a['lo'] or x > a['hi']:
        return -math.inf
    return g


class C12:
    ID = 'C12'
    TITLE = 'Posterior = prior x Gaussian likelihood, exactly as documented'
    TIERS = {'quick': {'budget_s': 75.0}}

    def generate(self, rng, tier='quick'):
        b = Builder(rng)
        family = rng.choice(['sphere', 'sphere', 'pair'])
        # now and then (nearly) everything is free: more than ten parameters
        many = rng.random() < 0.12
        if many:
            family = 'pair'
        n = rng.randint(4, 12)
        m = rng.randint(4, 12)
        spacing = rng.choice([0.1, 0.15])
        ext = [n * spacing, m * spacing]
        optics = {'medium_index': 1.33, 'illum_wavelen': 0.66,
                  'illum_polarization': rng.choice([[1, 0], [0, 1],
                                                    [0.6, 0.8]])}
        optics_from = rng.choice(['model', 'data', 'both'])
        data_noise = rng.choice([None, 0.05, 0.2])
        model_noise = rng.choice([None, 0.1, 0.03])
        if data_noise is None and model_noise is None:
            model_noise = 0.08
        # per-illumination-channel variant: 2-3 channels with their own
        # wavelength and noise level (dictionaries in free key order)
        chans = None
        if family == 'sphere' and rng.random() < 0.3:
            chans = rng.choice([['red', 'green'], ['red', 'green', 'blue']])
            n, m = min(n, 8), min(m, 8)
            wl = [[c_, rfloat(rng, 0.45, 0.7, 3)] for c_ in chans]
            rng.shuffle(wl)
            optics['illum_wavelen'] = {'dict': wl}
            optics_from = rng.choice(['model', 'data'])

            def chnoise():
                it = [[c_, rfloat(rng, 0.03, 0.3, 3)] for c_ in chans]
                rng.shuffle(it)
                return {'dict': it}
            if model_noise is not None and rng.random() < 0.7:
                model_noise = chnoise()
            if data_noise is not None and rng.random() < 0.7:
                data_noise = chnoise()
        det = b.emit('detector_grid', {
            'shape': [n, m], 'spacing': spacing,
            'extra_dims': {'illumination': chans} if chans else None,
            'optics': dict(optics, noise_sd=data_noise)
            if optics_from in ('data', 'both')
            else {'noise_sd': data_noise}}, store='det')
        free = {}          # name -> prior spec
        truth = {}

        def maybe(name, value, width, p=0.6, kind=None):
            if rng.random() < (0.97 if many else p):
                free[name] = prior_spec(rng, name, value, width, kind)
                truth[name] = value
                return free[name]
            return value
        members = []
        nsph = 1 if family == 'sphere' else (3 if many else 2)
        for j in range(nsph):
            cx = rfloat(rng, 0.2 * ext[0], 0.8 * ext[0], 3) + 1.4 * j
            cy = rfloat(rng, 0.2 * ext[1], 0.8 * ext[1], 3)
            cz = rfloat(rng, 5, 12, 3)
            r = rfloat(rng, 0.3, 0.6, 3)
            nidx = rfloat(rng, 1.45, 1.65, 3)
            sfx = '' if nsph == 1 else str(j)
            members.append({
                'n': maybe('n' + sfx, nidx, 0.05, 0.4),
                'r': maybe('r' + sfx, r, 0.2, 0.8,
                           rng.choice(['uniform', 'gaussian', 'bounded'])),
                'center': [maybe('x' + sfx, cx, 0.5, 0.7),
                           maybe('y' + sfx, cy, 0.5, 0.5),
                           maybe('z' + sfx, cz, 2.0, 0.6)]})
        if not free:
            free['r'] = prior_spec(rng, 'r', 0.5, 0.2)
            truth['r'] = 0.5
            members[0]['r'] = free['r']
        if family == 'sphere':
            sc = b.emit('sphere', members[0], store='sc')
        else:
            sc = b.emit('spheres', {'members': [
                {'op': 'sphere', 'args': mm} for mm in members],
                'warn': False}, store='sc')
        mk = rng.choice(['alpha', 'alpha', 'exact'])
        alpha = None
        if mk == 'alpha':
            alpha = maybe('alpha', rfloat(rng, 0.6, 1.0, 3), 0.3, 0.6,
                          'uniform')
        thk = 'auto'
        if family == 'pair':
            thk = rng.choice(['auto', {'kind': 'Mie', 'options': {}},
                              {'kind': 'Multisphere', 'options': {}}])
        cons = []
        frac = None
        if family == 'pair' and rng.random() < 0.6:
            frac = rng.choice([0.1, 0.0, 0.3])
            cons = [b.emit('limit_overlaps', {'fraction': frac},
                           store='con')]
            if rng.random() < 0.5:
                # a second, looser or tighter, constraint: every one of
                # them has to be met
                f2 = rng.choice([0.5, 0.05, 1.0, 0.0, 1.0, 0.0])
                c2 = b.emit('limit_overlaps', {'fraction': f2}, store='con')
                cons = [cons[0], c2] if rng.random() < 0.5 else [c2, cons[0]]
                frac = min(frac, f2)
        moptics = dict(optics) if optics_from in ('model', 'both') else {}
        if optics_from == 'both':
            # the model's values must win over the data's
            moptics['illum_wavelen'] = 0.532
        moptics['noise_sd'] = model_noise
        if isinstance(model_noise, dict) and 'dict' in model_noise and \
                rng.random() < 0.4:
            # the same per-channel values as a labelled array (labels in
            # the order they were written, not sorted)
            moptics['noise_sd'] = {'xda': {
                'values': [v_ for _, v_ in model_noise['dict']],
                'dims': ['illumination'],
                'coords': {'illumination': [k_ for k_, _ in
                                            model_noise['dict']]}}}
        mo = b.emit('model', {'kind': mk, 'sc': sc, 'alpha': alpha,
                              'optics': moptics, 'th': thk,
                              'constraints': cons,
                              'counting': (rng.choice([True, 'memo'])
                                           if mk == 'exact' else False)},
                    store='mo')
        cfg = {'members': members, 'alpha': alpha, 'mk': mk, 'thk': thk,
               'optics_eff': dict(optics, **({'illum_wavelen': 0.532}
                                             if optics_from == 'both'
                                             else {})),
               'sigma': model_noise if model_noise is not None
               else data_noise, 'free': free, 'frac': frac, 'nsph': nsph,
               'chans': chans}
        # data from the model's own forward calculation + seeded noise
        data = b.emit('noisy_data', {
            'mo': mo, 'pars': dict(truth), 'det': det,
            'noise': cfg['sigma'] if not isinstance(cfg['sigma'], dict)
            else 0.1, 'seed': rng.randrange(2 ** 31),
            'noise_sd_attr': data_noise}, store='data')
        datas = [(data, 'grid')]
        if rng.random() < 0.4 and not chans:
            k = rng.randint(3, n * m)
            sub = b.emit('make_subset', {'det': data, 'pixels': k,
                                         'seed': rng.randrange(1000)},
                         store='data')
            datas.append((sub, 'subset'))
        pool = None
        f10 = rng.random() < 0.55
        if f10:
            pool = b.emit('pool_create', {
                'nworkers': rng.randint(1, 3), 'seed': rng.randrange(2 ** 31),
                'dup_rate': rng.choice([0.0, 0.3, 0.6]),
                'kill_rate': rng.choice([0.0, 0.0, 0.2]),
                'reorder': rng.random() < 0.8}, store='pool')
        vectors = []
        for _ in range(rng.randint(4, 14)):
            # a sampler revisits points: evaluate again where we were
            v = (dict(rng.choice(vectors))
                 if vectors and rng.random() < 0.25
                 else self.draw_vector(rng, cfg, truth))
            vectors.append(v)
            c = rng.random()
            d, dk = rng.choice(datas)
            ref = self.ref_calc_args(cfg, v, d, mo)
            what = rng.choice(['lnprior', 'lnlike', 'lnposterior',
                               'lnposterior', 'forward'])
            keyed = rng.choice(['dict', 'list'])
            group = len(b.events)
            b.emit('named_eval', {'mo': mo, 'what': 'lnprior', 'values': v,
                                  'keyed': keyed},
                   tags={'k': 'lnprior', 'grp': group, 'ev': 'lnprior'})
            if what != 'lnprior':
                b.emit('named_eval', {'mo': mo, 'what': what, 'values': v,
                                      'data': d, 'keyed': keyed},
                       tags={'k': what, 'grp': group, 'ev': what,
                             'dk': dk})
                if what == 'lnposterior':
                    b.emit('named_eval', {'mo': mo, 'what': 'lnlike',
                                          'values': v, 'data': d,
                                          'keyed': keyed},
                           tags={'k': 'lnlike', 'grp': group,
                                 'ev': 'lnlike', 'dk': dk,
                                 'maybe_invalid': True})
                if ref is not None:
                    b.emit('calc', ref, tags={'k': 'ref', 'grp': group,
                                              'ev': 'ref'})
            if rng.random() < 0.25 and dk == 'grid' and not chans:
                k = rng.randint(2, n * m)
                b.emit('named_eval', {'mo': mo, 'what': 'lnposterior',
                                      'values': v, 'data': d, 'pixels': k,
                                      'keyed': 'list'},
                       tags={'k': 'lnposterior-pixels', 'grp': group,
                             'ev': 'pixels', 'rng_state': True,
                             'rng_dependent': True})
                if ref is not None and what == 'lnprior':
                    b.emit('calc', ref, tags={'k': 'ref', 'grp': group,
                                              'ev': 'ref'})
            if rng.random() < 0.15:
                b.emit('rng_draws', {'k': rng.randint(1, 20)})
            if pool is not None and rng.random() < 0.3:
                b.emit('pool_prework', {
                    'pool': pool, 'wid': rng.randrange(3),
                    'kind': rng.choice(['multisphere', 'tmatrix', 'rng',
                                        'mie'])})
            if pool is not None and rng.random() < 0.35:
                vs = [rng.choice(vectors) for _ in range(rng.randint(1, 5))]
                d, dk = rng.choice(datas)
                b.emit('pool_map', {'pool': pool, 'mo': mo, 'data': d,
                                    'vectors': vs},
                       tags={'k': 'pool_map', 'pool': True})
        if pool is not None:
            vs = [rng.choice(vectors) for _ in range(rng.randint(2, 6))]
            if family == 'pair' and isinstance(thk, dict) and \
                    thk['kind'] == 'Multisphere' and rng.random() < 0.5:
                b.emit('pool_prework', {'pool': pool,
                                        'wid': rng.randrange(3),
                                        'kind': 'arm_solver'},
                       tags={'k': 'F8-in-worker'})
                b.emit('pool_map', {'pool': pool, 'mo': mo, 'data': data,
                                    'vectors': vs},
                       tags={'k': 'pool_map', 'pool': True, 'f8': True})
            else:
                b.emit('pool_map', {'pool': pool, 'mo': mo, 'data': data,
                                    'vectors': vs},
                       tags={'k': 'pool_map', 'pool': True})
            b.emit('pool_close', {'pool': pool})
        return {'config': {'faults': {'F10': f10}, 'cfg': cfg, 'node': {}},
                'events': b.events}

    def draw_vector(self, rng, cfg, truth):
        v = {}
        for name, spec in cfg['free'].items():
            a = spec['args']
            c = rng.random()
            if spec['ctor'] == 'gaussian':
                lo, hi = a['mu'] - 2 * a['sd'], a['mu'] + 2 * a['sd']
            else:
                lo, hi = a['lo'], a['hi']
            if c < 0.55:
                x = truth[name] + (rng.random() - 0.5) * 0.5 * (hi - lo)
            elif c < 0.7:
                x = rng.choice([lo, hi])            # on the bounds
            elif c < 0.85:
                x = rng.choice([lo - 0.01 * (hi - lo), hi + 0.3 * (hi - lo)])
            else:
                x = truth[name]
            if name.startswith('r') and rng.random() < 0.06:
                x = -abs(x)                           # invalid scatterer
            v[name] = round(x, 9)
        return v

    def subst(self, cfg, v):
        """Scatterer spec with parameter values substituted."""
        def val_(s):
            if isinstance(s, dict) and 'ctor' in s:
                return v[s['args']['name']]
            return s
        out = []
        for mm in cfg['members']:
            out.append({'n': val_(mm['n']), 'r': val_(mm['r']),
                        'center': [val_(c) for c in mm['center']]})
        return out

    def ref_calc_args(self, cfg, v, data, mo=None):
        mem = self.subst(cfg, v)
        if any(mm['r'] < 0 for mm in mem):
            return None
        alpha = cfg['alpha']
        if isinstance(alpha, dict):
            alpha = v['alpha']
        if cfg['nsph'] == 1:
            sc = {'op': 'sphere', 'args': mem[0]}
        else:
            sc = {'op': 'spheres', 'args': {'members': mem, 'warn': False}}
        return {'calcs': None, 'kind': 'holo', 'det': data,
                'sc': None, '_inline_sc': sc,
                # 'auto' is resolved once, when the model is built (from
                # the guesses): the reference uses the theory the model holds
                'th': ({'of_model': mo} if cfg['thk'] == 'auto'
                       and cfg['nsph'] > 1 and mo is not None
                       else cfg['thk']),
                'optics': cfg['optics_eff'],
                'scaling': alpha if cfg['mk'] == 'alpha' else None}

    # -------------------------------------------------------------- oracle
    def oracle(self, ex):
        cfg = ex.run['config']['cfg']
        groups = {}
        for ev in ex.run['events']:
            rec = ex.records.get(ev.get('id'))
            if not rec or rec['outcome'] in ('skip', 'died'):
                continue
            tags = ev.get('tags', {})
            if 'grp' in tags:
                groups.setdefault(tags['grp'], {}).setdefault(
                    tags['ev'], []).append((ev, rec))
            if tags.get('pool'):
                self._check_pool(ex, ev, rec)
        for g, d in groups.items():
            self._check_group(ex, cfg, d)

    def _expected_lnprior(self, cfg, v):
        total = 0.0
        for name, spec in cfg['free'].items():
            total += lnprob_ref(spec, v[name])
        mem = self.subst(cfg, v)
        if any(mm['r'] < 0 for mm in mem):
            return -math.inf, 'invalid'
        if cfg['frac'] is not None and cfg['nsph'] >= 2:
            largest = 0
            for i in range(len(mem)):
                for j in range(i + 1, len(mem)):
                    d = math.dist(mem[i]['center'], mem[j]['center'])
                    largest = max(largest, mem[i]['r'] + mem[j]['r'] - d)
            if largest > min(mm['r'] for mm in mem) * 2 * cfg['frac']:
                return -math.inf, 'constraint'
        return total, None

    def _check_group(self, ex, cfg, d):
        if 'lnprior' not in d:
            return
        ev, rec = d['lnprior'][0]
        v = ev['args']['values']
        ex.stats['oracle_sampled'] += 1
        want, why = self._expected_lnprior(cfg, v)
        if rec['outcome'] != 'ok':
            ex.add(violation('C12.lnprior', ev['id'],
                             'lnprior raised %s: %s' % (rec['exc'],
                                                        rec['msg'][:100]),
                             sig='C12.lnprior:exc:' + rec['exc']))
            return
        got = _num(rec['payload'])
        if not _same(got, want, 1e-12):
            ex.add(violation(
                'C12.lnprior', ev['id'],
                'lnprior(%r) = %r, sum of the log-densities%s is %r' % (
                    v, got, ' (%s)' % why if why else '', want),
                sig='C12.lnprior:' + (why or 'value')))
            return
        cc = (rec.get('extra') or {}).get('calc_calls')
        if cc not in (None, 0):
            ex.add(violation('C12.effect', ev['id'],
                             'lnprior computed %d hologram(s)' % cc,
                             sig='C12.effect:lnprior'))
            return
        prior_finite = math.isfinite(want)
        ref = d.get('ref')
        refmap = None
        if ref and ref[0][1]['outcome'] == 'ok' and \
                O.is_da(ref[0][1]['payload']):
            refmap, _ = O.point_map(ref[0][1]['payload'])
        like_val = None
        for key in ('forward', 'lnlike', 'lnposterior', 'pixels'):
            for ev2, rec2 in d.get(key, []):
                ex.stats['oracle_sim'] += 1
                cc = (rec2.get('extra') or {}).get('calc_calls')
                if rec2['outcome'] != 'ok':
                    if key in ('forward', 'lnlike') and not prior_finite:
                        continue     # forward of an invalid scatterer
                    ex.add(violation(
                        'C12.' + key, ev2['id'],
                        '%s raised %s: %s' % (key, rec2['exc'],
                                              rec2['msg'][:100]),
                        sig='C12.%s:exc:%s' % (key, rec2['exc'])))
                    continue
                if key in ('lnposterior', 'pixels'):
                    want_calls = 1 if prior_finite else 0
                    if cc is not None and cc != want_calls:
                        ex.add(violation(
                            'C12.effect', ev2['id'],
                            'lnposterior with %s prior computed %d '
                            'hologram(s), expected %d' % (
                                'finite' if prior_finite else '-inf', cc,
                                want_calls), sig='C12.effect:lnposterior'))
                        continue
                    if not prior_finite:
                        if _num(rec2['payload']) != -math.inf:
                            ex.add(violation(
                                'C12.lnposterior', ev2['id'],
                                'lnposterior is %r where the prior is -inf'
                                % _num(rec2['payload']),
                                sig='C12.lnposterior:support'))
                        continue
                if refmap is None or not prior_finite:
                    continue
                data_rec = ex.records.get(rec2['rargs']['data']['ref'])
                if not data_rec or data_rec['outcome'] != 'ok':
                    continue
                dmap, _ = O.point_map(data_rec['payload'])
                sigma = cfg['sigma']
                if key == 'forward':
                    xc = ex.stats.setdefault('extra', {})
                    xc['forward_ref'] = xc.get('forward_ref', 0) + 1
                    fmap, _ = O.point_map(rec2['payload'])
                    if set(fmap) != set(refmap) or any(
                            np.asarray(fmap[p]).tobytes() !=
                            np.asarray(refmap[p]).tobytes() for p in fmap):
                        ex.add(violation(
                            'C12.forward', ev2['id'],
                            'forward hologram differs from the public '
                            'calc_holo for the substituted scatterer, '
                            'theory, optics and scaling',
                            sig='C12.forward:value'))
                    continue
                pts = list(dmap)
                if key == 'pixels':
                    # which pixels were used is *observed* at the RNG seam
                    # (one recorded choice() of the right size); if the
                    # library draws differently the value is not judged
                    k = rec2['rargs']['pixels']
                    ch = [c for c in rec2.get('rng_calls', [])
                          if c[0] == 'choice' and len(c) > 3]
                    dp = data_rec['payload']
                    nx = len(dp['coords']['x']['values'])
                    ny = len(dp['coords']['y']['values'])
                    if len(ch) != 1 or np.asarray(ch[0][3]).size != k or \
                            len(set(np.asarray(ch[0][3]).tolist())) != k:
                        continue
                    sel = np.asarray(ch[0][3]).reshape(-1)
                    if sel.max() >= nx * ny:
                        continue
                    xs = np.asarray(dp['coords']['x']['values'], float)
                    ys = np.asarray(dp['coords']['y']['values'], float)
                    z0 = float(np.asarray(
                        dp['coords']['z']['values']).reshape(-1)[0])
                    pts = [(float(xs[s // ny]), float(ys[s % ny]), z0)
                           for s in sel.tolist()]
                try:
                    R = np.array([np.asarray(refmap[p], float).reshape(-1)
                                  for p in pts])
                    D = np.array([np.asarray(dmap[p], float).reshape(-1)
                                  for p in pts])
                except KeyError:
                    continue
                if R.shape != D.shape:
                    continue
                if isinstance(sigma, dict):
                    # channel order of the rows = the data's channel axis
                    labels = [str(x) for x in np.asarray(
                        data_rec['payload']['coords']['illumination']
                        ['values']).tolist()]
                    smap = dict((k_, v_) for k_, v_ in sigma['dict'])
                    sg = np.array([smap[l_] for l_ in labels])
                    if R.shape[1] != len(sg):
                        continue
                else:
                    sg = np.full(R.shape[1], float(sigma))
                N = R.size
                like = -N / 2 * LN2PI - R.shape[0] * float(
                    np.sum(np.log(sg))) - 0.5 * float(
                    np.sum(((R - D) / sg) ** 2))
                got = _num(rec2['payload'])
                xc = ex.stats.setdefault('extra', {})
                xc['gauss_ref_' + key] = xc.get('gauss_ref_' + key, 0) + 1
                if key == 'lnlike':
                    like_val = got
                    target = like
                else:
                    target = want + like
                if not _same(got, target, 1e-9):
                    ex.add(violation(
                        'C12.' + ('lnlike' if key == 'lnlike'
                                  else 'lnposterior'), ev2['id'],
                        '%s = %r, Gaussian reference %r (N=%d, sigma=%r)' % (
                            key, got, target, N, sigma),
                        sig='C12.%s:value' % ('lnlike' if key == 'lnlike'
                                              else 'lnposterior' if
                                              key == 'lnposterior'
                                              else 'pixels')))
        # lnposterior = lnprior + lnlike exactly
        if d.get('lnposterior') and d.get('lnlike') and prior_finite:
            r1 = d['lnposterior'][0][1]
            r2 = d['lnlike'][0][1]
            if r1['outcome'] == 'ok' and r2['outcome'] == 'ok':
                a = _num(r1['payload'])
                bsum = _num(rec['payload']) + _num(r2['payload'])
                if a != bsum and not (math.isnan(a) and math.isnan(bsum)):
                    ex.add(violation(
                        'C12.lnposterior', d['lnposterior'][0][0]['id'],
                        'lnposterior %r != lnprior + lnlike = %r' % (a, bsum),
                        sig='C12.lnposterior:sum'))

    def _check_pool(self, ex, ev, rec):
        ex.stats['oracle_sim'] += 1
        if rec['outcome'] != 'ok':
            ex.add(violation('C12.pool', ev['id'],
                             'distributed evaluation raised %s: %s' % (
                                 rec['exc'], rec['msg'][:120]),
                             sig='C12.pool:exc:' + rec['exc']))
            return
        p = dict(rec['payload']['__dict__'])
        local = [_num(x) for x in p['local']]
        f8 = ev.get('tags', {}).get('f8')
        if p.get('err'):
            ex.add(violation('C12.pool', ev['id'],
                             'pool.map failed: %s' % p['err'],
                             sig='C12.pool:map-error'))
            return
        ex.fault('F10-duplicate', sum(
            1 for i, r in enumerate(p['replies'])
            if any(r2[0] == r[0] for r2 in p['replies'][:i])))
        ex.fault('F10-worker-death', int(p['deaths']))
        ex.fault('F10-dispatch-reordered', 1 if [
            x[1] for x in p['log'] if x[0] == 'SEND'] != sorted(
            x[1] for x in p['log'] if x[0] == 'SEND') else 0)
        xc = ex.stats.setdefault('extra', {})
        xc['pool_replies'] = xc.get('pool_replies', 0) + len(p['replies'])
        for idx, wid, st, v in p['replies']:
            v = _num(v) if st == 'ok' else v
            if st != 'ok':
                ex.add(violation(
                    'C12.pool', ev['id'],
                    'worker %d raised for vector %d: %s' % (wid, idx, v),
                    sig='C12.pool:worker-exc'))
                return
            lv = local[idx]
            same = (v == lv) or (math.isnan(v) and math.isnan(lv))
            if not same:
                if f8 and v == -math.inf:
                    ex.fault('F8-solver-in-worker', 1)
                    continue       # documented outcome of a solver failure
                ex.add(violation(
                    'C12.pool', ev['id'],
                    'worker %d returned %r for vector %d, the master '
                    'computes %r' % (wid, v, idx, lv),
                    sig='C12.pool:value'))
                return
        res = [_num(x) for x in p['res']]
        for i, (a, bb) in enumerate(zip(res, local)):
            if a != bb and not (math.isnan(a) and math.isnan(bb)) and \
                    not (f8 and a == -math.inf):
                ex.add(violation('C12.pool', ev['id'],
                                 'map result %d is %r, master %r' % (i, a, bb),
                                 sig='C12.pool:order'))
                return


def _num(p):
    if isinstance(p, dict) and '__npscalar__' in p:
        return float(np.asarray(p['v']))
    if isinstance(p, np.ndarray):
        return float(p)
    if O.is_da(p):
        return float(np.asarray(p['values']))
    return float(p)


def _same(a, b, rtol):
    if a == b:
        return True
    if math.isnan(a) or math.isnan(b) or math.isinf(a) or math.isinf(b):
        return False
    return abs(a - b) <= rtol * max(1.0, abs(b))


PROP = C12()
