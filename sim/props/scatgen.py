"""Shared scattering workload pieces (detectors, scatterers, theories)."""
import math

from sim.gen import rfloat, cplx, draw_optics, draw_index, draw_center

SC_KINDS = ['sphere', 'layered', 'spheres', 'spheroid', 'cylinder']
TH_KINDS = ['Mie', 'MieFar', 'Multisphere', 'Tmatrix', 'MieLens',
            'AberratedMieLens', 'LensMie', 'LensTmatrix', 'auto', 'classMie']

COMPAT = {
    'sphere': ['Mie', 'MieFar', 'Tmatrix', 'MieLens', 'AberratedMieLens',
               'LensMie', 'LensTmatrix', 'auto', 'classMie'],
    'layered': ['Mie', 'MieFar', 'auto', 'classMie'],
    'spheres': ['Mie', 'MieFar', 'Multisphere', 'MieLens', 'auto',
                'classMie'],
    'spheroid': ['Tmatrix', 'LensTmatrix', 'auto'],
    'cylinder': ['Tmatrix', 'LensTmatrix', 'auto'],
}
NEEDS_X_POL = ('Tmatrix', 'LensTmatrix')
LENS_KINDS = ('MieLens', 'AberratedMieLens', 'LensMie', 'LensTmatrix')


def draw_detector(rng, kinds=('grid', 'grid', 'points_cart', 'points_sph'),
                 maxside=16, stored_p=0.5, pol=None):
    kind = rng.choice(list(kinds))
    stored = draw_optics(rng, pol) if rng.random() < stored_p else None
    name = rng.choice([None, None, 'holo', 'img%d' % rng.randrange(100)])
    if kind == 'grid':
        c = rng.random()
        if c < 0.15:
            shape = [1, rng.randint(2, maxside)]
        elif c < 0.3:
            shape = [rng.randint(2, maxside), 1]
        elif c < 0.5:
            shape = rng.randint(2, maxside)
        else:
            shape = [rng.randint(2, maxside), rng.randint(2, maxside)]
        spacing = rng.choice([0.1, 0.0851, rfloat(rng, 0.05, 0.3, 4)])
        if rng.random() < 0.4:
            spacing = [spacing, rfloat(rng, 0.05, 0.3, 4)]
        shift = None
        if rng.random() < 0.4:
            shift = [rfloat(rng, -5, 5, 3), rfloat(rng, -5, 5, 3)]
        shp = shape if isinstance(shape, list) else [shape, shape]
        spc = spacing if isinstance(spacing, list) else [spacing, spacing]
        ext = [shp[0] * spc[0], shp[1] * spc[1]]
        org = shift or [0, 0]
        return ('detector_grid',
                {'shape': shape, 'spacing': spacing, 'name': name,
                 'optics': stored, 'shift': shift},
                {'kind': 'grid', 'extent': ext, 'origin': org,
                 'optics': stored, 'npts': shp[0] * shp[1],
                 'shape': shp, 'spacing': spc})
    n = rng.randint(1, 24)
    if kind == 'points_cart':
        coords = {'x': [rfloat(rng, -2, 4, 4) for _ in range(n)],
                  'y': [rfloat(rng, -2, 4, 4) for _ in range(n)]}
        c = rng.random()
        if c < 0.3:
            coords['z'] = rfloat(rng, -1, 1, 3)
        elif c < 0.5:
            coords['z'] = [rfloat(rng, -1, 1, 3) for _ in range(n)]
        return ('detector_points', {'coords': coords, 'name': name,
                                    'optics': stored},
                {'kind': 'points_cart', 'extent': [2, 2],
                 'origin': [0, 0], 'optics': stored, 'npts': n,
                 'zvar': isinstance(coords.get('z'), list)})
    coords = {'theta': [rfloat(rng, 0.0, 1.2, 5) for _ in range(n)],
              'phi': [rfloat(rng, 0, 2 * math.pi, 5) for _ in range(n)]}
    if rng.random() < 0.5:
        coords['r'] = [rfloat(rng, 5, 40, 3) for _ in range(n)]
    return ('detector_points', {'coords': coords, 'name': name,
                                'optics': stored},
            {'kind': 'points_sph', 'extent': [2, 2], 'origin': [0, 0],
             'optics': stored, 'npts': n, 'far': 'r' not in coords})


def draw_scatterer(rng, kind, extent=(1.5, 1.5), origin=(0, 0), big=False,
                   grid=None):
    """``grid`` = {'shape', 'spacing', 'origin'} of the detector the particle
    will be seen by: sometimes the particle sits *exactly* on a pixel row /
    column (or exactly above a pixel), where the scattering angles are
    exactly 0, pi/2 or pi."""
    def center():
        c = draw_center(rng, extent)
        c[0] = round(c[0] + origin[0], 4)
        c[1] = round(c[1] + origin[1], 4)
        if grid is not None and rng.random() < 0.25:
            for ax in rng.choice([(0,), (1,), (0, 1)]):
                k = rng.randrange(grid['shape'][ax])
                c[ax] = k * grid['spacing'][ax] + grid['origin'][ax]
        return c
    if kind == 'sphere':
        r = rfloat(rng, 0.2, 1.6 if big else 0.9, 4)
        return ('sphere', {'n': draw_index(rng), 'r': r,
                           'center': center()}, {'kind': 'sphere', 'r': r})
    if kind == 'layered':
        nl = rng.randint(2, 4)
        r0 = rfloat(rng, 0.15, 0.4, 4)
        rs = [r0]
        for _ in range(nl - 1):
            rs.append(round(rs[-1] + rfloat(rng, 0.05, 0.3, 4), 4))
        ns = [draw_index(rng, 0.15) for _ in range(nl)]
        if rng.random() < 0.5:
            return ('sphere', {'n': ns, 'r': rs, 'center': center()},
                    {'kind': 'layered'})
        ts = [rs[0]] + [round(rs[i] - rs[i - 1], 4) for i in range(1, nl)]
        return ('layered_sphere', {'n': ns, 't': ts, 'center': center()},
                {'kind': 'layered'})
    if kind == 'spheres':
        k = rng.randint(1, 5 if big else 3)
        members = []
        base = center()
        for j in range(k):
            r = rfloat(rng, 0.2, 0.6, 4)
            # spread so they do not overlap: along a seeded direction
            ang = rfloat(rng, 0, 2 * math.pi)
            d = 1.3 * j
            c = [round(base[0] + d * math.cos(ang), 4),
                 round(base[1] + d * math.sin(ang), 4),
                 round(base[2] + rfloat(rng, -0.3, 0.3), 4)]
            members.append({'n': draw_index(rng, 0.1), 'r': r, 'center': c})
        return ('spheres', {'members': members}, {'kind': 'spheres', 'k': k})
    if kind == 'spheroid':
        a = rfloat(rng, 0.2, 0.6, 4)
        asp = rfloat(rng, 0.5, 2.0, 3)
        rot = [0, rfloat(rng, 0, math.pi, 4), rfloat(rng, 0, 2 * math.pi, 4)]
        return ('spheroid', {'n': draw_index(rng, 0.2),
                             'r': [a, round(a * asp, 4)],
                             'rotation': rot, 'center': center()},
                {'kind': 'spheroid'})
    if kind == 'cylinder':
        d = rfloat(rng, 0.3, 0.8, 4)
        asp = rfloat(rng, 0.6, 1.8, 3)
        rot = [0, rfloat(rng, 0, math.pi, 4), rfloat(rng, 0, 2 * math.pi, 4)]
        return ('cylinder', {'n': draw_index(rng, 0.2), 'd': d,
                             'h': round(d * asp, 4), 'rotation': rot,
                             'center': center()}, {'kind': 'cylinder'})
    raise ValueError(kind)


def theory_args(rng, kind):
    if kind == 'Mie':
        o = {}
        if rng.random() < 0.5:
            o = {'compute_escat_radial': rng.random() < 0.5,
                 'full_radial_dependence': rng.random() < 0.7}
        return {'kind': 'Mie', 'options': o}
    if kind == 'MieFar':
        return {'kind': 'Mie', 'options': {'compute_escat_radial': False,
                                           'full_radial_dependence': False}}
    if kind == 'Multisphere':
        o = {}
        if rng.random() < 0.6:
            o = {'meth': rng.choice([0, 1]),
                 'niter': rng.choice([200, 100, 400]),
                 'eps': rng.choice([1e-6, 1e-5, 1e-7]),
                 'compute_escat_radial': rng.random() < 0.4}
        return {'kind': 'Multisphere', 'options': o}
    if kind == 'Tmatrix':
        return {'kind': 'Tmatrix'}
    if kind in ('MieLens', 'AberratedMieLens'):
        o = {'lens_angle': rng.choice([1.0, 0.6, rfloat(rng, 0.3, 1.2, 3)])}
        if rng.random() < 0.7:
            acc = {}
            if rng.random() < 0.7:
                acc['interpolate_integrals'] = rng.choice(
                    [True, False, 'check'])
            if rng.random() < 0.5:
                acc['quad_npts'] = rng.choice([60, 100, 140])
            if rng.random() < 0.3:
                acc['interpolator_window_size'] = rng.choice([30.0, 10.0])
            if rng.random() < 0.3:
                acc['interpolator_degree'] = rng.choice([32, 16])
            o['calculator_accuracy_kwargs'] = acc
        if kind == 'AberratedMieLens':
            o['spherical_aberration'] = rng.choice(
                [0.0, rfloat(rng, -3, 3, 3),
                 [rfloat(rng, -2, 2, 3), rfloat(rng, -1, 1, 3)]])
        return {'kind': kind, 'options': o}
    if kind in ('LensMie', 'LensTmatrix'):
        inner = {'kind': 'Mie', 'options': {}} if kind == 'LensMie' \
            else {'kind': 'Tmatrix'}
        return {'kind': 'Lens', 'inner': inner,
                'options': {'lens_angle': rfloat(rng, 0.4, 1.1, 3),
                            'quad_npts_theta': rng.choice([10, 14, 20]),
                            'quad_npts_phi': rng.choice([10, 16, 20])}}
    raise ValueError(kind)


def draw_theory(rng, kind):
    if kind in ('auto', 'classMie'):
        return None
    return ('theory', theory_args(rng, kind), {'kind': kind})


# ---------------------------------------------------------------------------
# validity of a *resolved* calculation (used by oracles; independent of the
# generator's own bookkeeping so that it stays right under minimisation)
# ---------------------------------------------------------------------------

def sc_kind_of(ev):
    if ev is None:
        return None
    op = ev['op']
    if op == 'sphere':
        r = ev['args'].get('r')
        if isinstance(r, list):
            return 'layered'
        if isinstance(r, (int, float)) and r <= 0:
            return 'invalid'
        if ev['args'].get('center') is None:
            return 'invalid'
        return 'sphere'
    if op == 'layered_sphere':
        return 'layered'
    if op in ('spheres', 'spheroid', 'cylinder'):
        return op
    return None


def th_kind_of(ex, th):
    if th == 'auto' or th is None:
        return 'auto'
    if isinstance(th, str) and th.startswith('class:'):
        return 'class' + th[6:]
    if isinstance(th, dict) and 'ref' in th:
        ev = ex.events_by_id.get(th['ref'])
        if ev is None or ev['op'] != 'theory':
            return None
        a = ev['args']
        k = a['kind']
        if k == 'Mie':
            o = a.get('options') or {}
            if o.get('compute_escat_radial') is False and \
                    o.get('full_radial_dependence') is False:
                return 'MieFar'
            return 'Mie'
        if k == 'Lens':
            return 'Lens' + a['inner']['kind']
        return k
    return None


def effective_optics(ex, ra):
    o = dict(ra.get('optics') or {})
    det = ra.get('det')
    if isinstance(det, dict) and 'ref' in det:
        dev = ex.events_by_id.get(det['ref'])
        stored = (dev['args'].get('optics') or {}) if dev else {}
        for k, v in stored.items():
            if o.get(k) is None:
                o[k] = v
    return o


def calc_is_valid(ex, rec):
    """True iff the resolved calculation is one HoloPy documents as
    supported (so that an exception of a programming-error class, a
    non-finite value or a crash is a defect and not a rejected input)."""
    ra = rec.get('rargs') or {}
    kind = ra.get('kind')
    sev = ex.events_by_id.get((ra.get('sc') or {}).get('ref'))
    sk = sc_kind_of(sev)
    tk = th_kind_of(ex, ra.get('th'))
    if sk not in COMPAT or tk is None:
        return False
    if tk not in COMPAT[sk]:
        return False
    o = effective_optics(ex, ra)
    need = ['medium_index', 'illum_wavelen']
    if kind != 'scat_matrix':
        need.append('illum_polarization')
    if any(o.get(k) is None for k in need):
        return False
    uses_tm = tk in NEEDS_X_POL or (tk == 'auto' and
                                    sk in ('spheroid', 'cylinder'))
    if uses_tm and kind != 'scat_matrix':
        pol = o.get('illum_polarization')
        if not (isinstance(pol, list) and len(pol) == 2 and pol[1] == 0
                and pol[0] > 0):
            return False
    if kind == 'cross_sections':
        if sk in ('sphere', 'layered'):
            return tk in ('Mie', 'MieFar', 'auto', 'classMie')
        if sk == 'spheres':
            return tk == 'Multisphere'
        return False
    dev = ex.events_by_id.get((ra.get('det') or {}).get('ref'))
    if dev is None:
        return False
    if dev['op'] == 'detector_points':
        c = dev['args']['coords']
        sph = 'theta' in c
        if sph and 'r' not in c and kind != 'scat_matrix':
            return False
        if tk in LENS_KINDS and (sph or isinstance(c.get('z'), list)):
            return False
    elif dev['op'] not in ('detector_grid', 'image'):
        return False
    if kind == 'scat_matrix' and tk in LENS_KINDS + ('Multisphere',):
        return False
    if kind == 'scat_matrix' and sk == 'spheres':
        return False
    return True
