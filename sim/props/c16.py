"""C16 - images keep values, coordinates and metadata through I/O and edits.

[SIM]   HDF5 / TIFF round trips over histories (repeated save/load cycles,
        overwrites, loading in a restarted interpreter, stream targets),
        averaging under seeded permutations of the directory listing (a real
        nondeterminism behind the glob seam), update_metadata leaving the
        shared original untouched, and libc-level faults inside save / load
        (a node death inside libhdf5 under an armed fault is an expected
        outcome followed by restart; every acknowledged file must still load
        to its snapshot).  Reference model: path -> last acknowledged image.
"""
import math

import numpy as np

from sim import canon
from sim import oracles as O
from sim.gen import Builder, rfloat, draw_optics
from sim.runner import violation

EPS = np.finfo(float).eps


def attrs_plain(p):
    return {k: v for k, v in p['attrs']['__dict__']}


class C16:
    ID = 'C16'
    TITLE = 'Images keep values, coordinates and metadata through I/O'
    TIERS = {'quick': {'budget_s': 70.0}}

    def draw_image(self, rng, multi=None):
        shape = [rng.randint(1, 12), rng.randint(2, 12)]
        if shape[0] == 1 and shape[1] == 1:
            shape[1] = 3
        spacing = rng.choice([0.1, rfloat(rng, 0.01, 2, 4)])
        if rng.random() < 0.4:
            spacing = [spacing, rfloat(rng, 0.01, 2, 4)]
        multi = rng.random() < 0.3 if multi is None else multi
        channels = None
        optics = draw_optics(rng)
        if rng.random() < 0.15:
            optics.pop(rng.choice(sorted(optics)))     # partial metadata
        optics['noise_sd'] = rng.choice([None, 0.05, rfloat(rng, 0.01, 1)])
        if multi:
            channels = rng.choice([['red', 'green'], ['red', 'green', 'blue'],
                                   ['green', 'blue']])
            # dictionaries are keyed by channel: their key order is free
            def keyed(lo, hi):
                items = [[c, rfloat(rng, lo, hi, 3)] for c in channels]
                rng.shuffle(items)
                return {'dict': items}
            if rng.random() < 0.6:
                optics['illum_wavelen'] = keyed(0.4, 0.7)
            if rng.random() < 0.5:
                optics['noise_sd'] = keyed(0.01, 0.3)
            if rng.random() < 0.3:
                # array-valued metadata: one unit polarization vector per
                # channel, in either order of the two dimensions
                vecs = []
                for _ in channels:
                    a_ = rfloat(rng, 0, 6.28, 4)
                    vecs.append([round(math.cos(a_), 12),
                                 round(math.sin(a_), 12), 0.0])
                vals_ = np.array(vecs)
                dims_ = ['illumination', 'vector']
                if rng.random() < 0.5:
                    vals_, dims_ = vals_.T, ['vector', 'illumination']
                optics['illum_polarization'] = {'xda': {
                    'values': vals_.tolist(), 'dims': dims_,
                    'coords': {'illumination': channels,
                               'vector': ['x', 'y', 'z']}}}
        dtype = rng.choice(['float64', 'float64', 'float32', 'uint8',
                            'int32', 'uint16'])
        return {'shape': shape, 'spacing': spacing,
                'seed': rng.randrange(2 ** 31), 'dtype': dtype,
                'optics': optics,
                'name': rng.choice([None, 'holo', 'image0001', 'a b',
                                    'bead_5\u00b5m', 'caf\u00e9_2']),
                'channels': channels,
                'offset': rng.choice([1.0, 100.0, 0.0]),
                'scale': rng.choice([0.1, 1.0, 30.0])}

    def generate_sweep(self, rng, tier):
        """Every fault kind at every tracked call index of one HDF5 save (and
        of one load of an acknowledged file), each in a fresh process."""
        b = Builder(rng)
        args = self.draw_image(rng)
        n = 0
        for phase in ('save', 'load'):
            for fk in (2, 3, 4):
                for idx in range(15 if phase == 'save' else 10):
                    n += 1
                    path = 'sweep_%d.h5' % n
                    img = b.emit('image', args, store='det',
                                 tags={'k': 'image',
                                       'multi': bool(args['channels'])})
                    if phase == 'save':
                        b.emit('arm_io_fault', {'kind': fk, 'index': idx,
                                                'err': rng.choice([28, 5,
                                                                   122])})
                    b.emit('img_save', {'img': img, 'path': path},
                           tags={'k': 'h5-save', 'save': True, 'fmt': 'h5'})
                    if phase == 'save':
                        b.restart()
                    else:
                        b.emit('arm_io_fault', {'kind': fk, 'index': idx,
                                                'err': rng.choice([5, 13])})
                    b.emit('img_load', {'path': path}, store='det',
                           tags={'k': 'h5-load', 'load': True, 'fmt': 'h5'})
                    if phase == 'load':
                        b.restart()
                        b.emit('img_load', {'path': path}, store='det',
                               tags={'k': 'h5-load', 'load': True,
                                     'fmt': 'h5'})
        return {'config': {'faults': {'io': True, 'F1': True},
                           'mode': 'fault-sweep', 'node': {}},
                'events': b.events}

    def generate(self, rng, tier='quick'):
        if rng.random() < (0.03 if tier == 'quick' else 0.25):
            return self.generate_sweep(rng, tier)
        b = Builder(rng)
        faulty = rng.random() < 0.4
        faults = {'F1': rng.random() < 0.5, 'io': faulty,
                  'F5': rng.random() < 0.7}
        npath = 0
        written = []              # (path, kind)
        imgs = []
        state = {'imgs': []}

        def new_image():
            args = self.draw_image(rng)
            h = b.emit('image', args, store='det',
                       tags={'k': 'image', 'multi': bool(args['channels'])})
            state['imgs'].append((h, args))
            return h, args
        new_image()
        for _ in range(rng.randint(6, 22)):
            c = rng.random()
            if not state['imgs']:
                new_image()
            img, iargs = rng.choice(state['imgs'])
            if c < 0.08:
                new_image()
            elif c < 0.38:
                # HDF5 cycle(s)
                cycles = rng.randint(1, 3)
                cur = img
                for cyc in range(cycles):
                    if rng.random() < 0.2:
                        blob = b.emit('img_save_stream', {'img': cur},
                                      store='blob',
                                      tags={'k': 'h5-stream-save',
                                            'ssave': True})
                        cur = b.emit('img_load_stream', {'blob': blob},
                                     store='det',
                                     tags={'k': 'h5-stream-load',
                                           'sload': True})
                        continue
                    if written and rng.random() < 0.2:
                        path = rng.choice([p for p, k in written
                                           if k == 'h5'] or ['im_0.h5'])
                    else:
                        npath += 1
                        path = 'im_%d.h5' % npath
                    written.append((path, 'h5'))
                    if faulty and rng.random() < 0.4:
                        # errno faults inside libhdf5 give third-party
                        # undefined behaviour (silent corruption or SIGSEGV,
                        # differently from run to run), which would break
                        # "one seed = one execution": HDF5 operations get
                        # short transfers, EINTR and crashes only
                        b.emit('arm_io_fault', {
                            'kind': rng.choice([2, 3, 4, 4]),
                            'index': rng.randint(0, 14),
                            'err': 0})
                    armed_save = b.events[-1]['op'] == 'arm_io_fault'
                    b.emit('img_save', {'img': cur, 'path': path},
                           tags={'k': 'h5-save', 'save': True, 'fmt': 'h5'})
                    # an I/O error inside libhdf5 can corrupt that library's
                    # process-global state (a later HDF5 call may or may not
                    # segfault): the simulated user abandons the process
                    # after every HDF5 operation that ran with a fault armed
                    if armed_save or (faults['F1'] and rng.random() < 0.4):
                        b.restart()
                        state['imgs'] = []
                    armed_load = False
                    if faulty and rng.random() < 0.25:
                        b.emit('arm_io_fault', {
                            'kind': rng.choice([2, 3, 4]),
                            'index': rng.randint(0, 10), 'err': 0})
                        armed_load = True
                    cur = b.emit('img_load', {'path': path}, store='det',
                                 tags={'k': 'h5-load', 'load': True,
                                       'fmt': 'h5'})
                    if armed_load:
                        b.restart()
                        state['imgs'] = []
                        break
                    state['imgs'].append((cur, None))
            elif c < 0.58:
                # TIFF export / import
                npath += 1
                path = 'im_%d.tif' % npath
                via = rng.choice(['hp', 'save_image', 'save_image'])
                depth = 8 if via == 'hp' else rng.choice([8, 16, 'float'])
                if iargs is None or iargs['shape'][0] < 2 or \
                        iargs['shape'][1] < 2:
                    # TIFF export stores the pixel spacing, which a single
                    # row / column of pixels does not define
                    cands = [(h_, a_) for h_, a_ in state['imgs']
                             if a_ is not None and min(a_['shape']) >= 2]
                    if not cands:
                        continue
                    img, iargs = rng.choice(cands)
                if iargs['channels']:
                    depth = 8       # documented: other depths may not be
                    #                 supported for colour images
                if faulty and rng.random() < 0.3:
                    b.emit('arm_io_fault', {
                        'kind': rng.choice([1, 2, 3, 4, 5]),
                        'index': rng.randint(0, 6),
                        'err': rng.choice([28, 5, 122])})
                b.emit('img_save', {'img': img, 'path': path, 'via': via,
                                    'depth': depth, 'scaling': 'auto'},
                       tags={'k': 'tif-save', 'save': True, 'fmt': 'tif',
                             'depth': depth})
                written.append((path, 'tif'))
                if faults['F1'] and rng.random() < 0.3:
                    b.restart()
                    state['imgs'] = []
                if faulty and rng.random() < 0.25:
                    b.emit('arm_io_fault', {
                        'kind': rng.choice([1, 2, 3, 4]),
                        'index': rng.randint(0, 6),
                        'err': rng.choice([5, 13])})
                b.emit('img_load', {'path': path}, store='tifimg',
                       tags={'k': 'tif-load', 'load': True, 'fmt': 'tif',
                             'depth': depth})
            elif c < 0.72:
                # raw raster + load_image with spacing / channels
                npath += 1
                ch = rng.choice([None, None, 3])
                path = 'raw_%d.tif' % npath
                shape = [rng.randint(2, 10), rng.randint(2, 10)]
                b.emit('raw_tiff', {'path': path, 'shape': shape,
                                    'seed': rng.randrange(2 ** 31),
                                    'channels': ch,
                                    'mode': rng.choice(['L', 'I;16'])},
                       tags={'k': 'raw'})
                sp = rng.choice([0.1, [0.1, 0.3], rfloat(rng, 0.01, 2, 3)])
                if rng.random() < 0.25:
                    # the spacing in another container: a tuple, or the
                    # array that get_spacing(other_image) returns
                    pair = [rfloat(rng, 0.01, 2, 3), rfloat(rng, 0.01, 2, 3)]
                    sp = rng.choice([{'tuple': pair}, {'arr': pair},
                                     {'arr': pair}])
                channel = None
                if ch:
                    channel = rng.choice([0, 1, 2, [0, 1], [0, 2],
                                          [0, 1, 2], 'all'])
                b.emit('load_image', {'path': path, 'spacing': sp,
                                      'channel': channel,
                                      'optics': draw_optics(rng)},
                       tags={'k': 'load_image', 'li': True, 'raw': path,
                             'shape': shape, 'nch': ch})
            elif c < 0.86:
                # averaging, listing order is the simulator's choice
                k = rng.randint(2, 5)
                npath += 1
                d = 'avg_%d' % npath
                b.emit('mkdir', {'path': d})
                shape = [rng.randint(2, 8), rng.randint(2, 8)]
                if rng.random() < 0.3:
                    # frames large enough for pixel coordinates i * spacing
                    # that are not exact multiples in floating point
                    shape = [rng.randint(20, 40), rng.randint(20, 40)]
                names = []
                for j in range(k):
                    nm = '%s/f%s.tif' % (d, rng.choice('abcdefgh') + str(j))
                    names.append(nm)
                    b.emit('raw_tiff', {'path': nm, 'shape': shape,
                                        'seed': rng.randrange(2 ** 31)},
                           tags={'k': 'raw'})
                sp = rng.choice([0.1, 0.25, 0.0851, [0.1, 0.3],
                                 rfloat(rng, 0.03, 0.5, 4)])
                grp = len(b.events)
                for nm in names:
                    b.emit('load_image', {'path': nm, 'spacing': sp},
                           tags={'k': 'load_image', 'avgmember': grp})
                refh = None
                if rng.random() < 0.35 and shape[0] > 2 and shape[1] > 2:
                    # a reference image: smaller field of view on the same
                    # pixel grid, with its own metadata
                    rshape = [rng.randint(2, shape[0]),
                              rng.randint(2, shape[1])]
                    rorigin = [rng.randint(0, shape[0] - rshape[0]),
                               rng.randint(0, shape[1] - rshape[1])]
                    refh = b.emit('image', {
                        'shape': rshape, 'spacing': sp, 'origin': rorigin,
                        'seed': rng.randrange(2 ** 31), 'dtype': 'float64',
                        'optics': dict(draw_optics(rng), noise_sd=None),
                        'name': 'ref', 'channels': None, 'offset': 1.0,
                        'scale': 0.1}, store='ref',
                        tags={'k': 'image', 'multi': False})
                for rep in range(2):
                    if faults['F5']:
                        b.emit('set_glob_seed',
                               {'seed': rng.randrange(1, 2 ** 31)},
                               tags={'k': 'F5'})
                    la = {'spacing': rng.choice([sp, None])
                          if refh is not None else sp}
                    if refh is not None:
                        la['refimg'] = refh
                    if rng.random() < 0.5:
                        la['directory'] = d
                    else:
                        order = list(names)
                        rng.shuffle(order)
                        la['paths'] = order
                    avh = b.emit('load_average', la, store='avgimg',
                                 tags={'k': 'load_average', 'avg': grp,
                                       'n': k, 'refimg': refh is not None})
                    if rng.random() < 0.4:
                        # the averaged background is kept for later sessions
                        npath += 1
                        pth = 'avgsaved_%d.h5' % npath
                        b.emit('img_save', {'img': avh, 'path': pth},
                               tags={'k': 'h5-save', 'save': True,
                                     'fmt': 'h5'})
                        b.emit('img_load', {'path': pth}, store='avgre',
                               tags={'k': 'h5-load', 'load': True,
                                     'fmt': 'h5'})
            else:
                o = draw_optics(rng)
                for kk in list(o):
                    if rng.random() < 0.4:
                        o.pop(kk)
                if rng.random() < 0.4:
                    o['noise_sd'] = rfloat(rng, 0.01, 0.5, 3)
                if iargs is not None and iargs.get('channels') and \
                        rng.random() < 0.6:
                    items = [[c_, rfloat(rng, 0.01, 0.9, 3)]
                             for c_ in iargs['channels']]
                    rng.shuffle(items)
                    o[rng.choice(['noise_sd', 'illum_wavelen'])] = \
                        {'dict': items}
                if 'illum_polarization' in o and rng.random() < 0.15:
                    # circular / elliptical light: complex components
                    o['illum_polarization'] = [
                        1, {'c': [0.0, rng.choice([1.0, -1.0, 0.5])]}]
                elif 'illum_polarization' in o and rng.random() < 0.25:
                    # the same vector handed over as a labelled array
                    pv = list(o['illum_polarization']) + [0.0]
                    o['illum_polarization'] = {'xda': {
                        'values': pv, 'dims': ['vector'],
                        'coords': {'vector': ['x', 'y', 'z']}}}
                if not o:
                    o = {'medium_index': 1.5}
                new = b.emit('update_metadata', {'img': img, 'optics': o},
                             store='det', tags={'k': 'update_metadata',
                                                'um': True})
                state['imgs'].append((new, None))
        return {'config': {'faults': faults, 'node': {}}, 'events': b.events}

    # -------------------------------------------------------------- oracle
    def oracle(self, ex):
        fs = {}
        armed_next = None
        avg = {}
        tainted = set()      # objects that came out of unacknowledged files
        poisoned = False     # libhdf5 saw an injected error in this process
        for ev in ex.run['events']:
            if ev.get('op') == 'RESTART':
                armed_next = None
                poisoned = False
                continue
            if ev.get('op') == 'arm_io_fault':
                r0 = ex.records.get(ev['id'])
                if r0 and r0['outcome'] == 'ok':
                    armed_next = ev['args']
                continue
            rec = ex.records.get(ev.get('id'))
            if not rec or rec['outcome'] == 'skip':
                continue
            tags = ev.get('tags', {})
            if ev['op'] in ('img_save', 'img_load'):
                armed_now, armed_next = armed_next, None
            else:
                armed_now = None
            extra = rec.get('extra') or {}
            fired = bool(extra.get('fired'))
            if rec['outcome'] == 'died' and (armed_now or poisoned):
                # libhdf5 / h5py may abort on write errors (third party),
                # also in a *later* HDF5 call of the same process; an armed
                # crash fault exits with status 77
                fired = True
                extra = {'armed': [armed_now['kind'] if armed_now else 0]}
            if rec['outcome'] == 'died':
                poisoned = False          # a new process takes over
            elif fired and tags.get('fmt') == 'h5':
                poisoned = True
            if fired:
                ex.fault('io-' + {1: 'errno', 2: 'short', 3: 'eintr',
                                  4: 'crash', 5: 'torn-write'}.get(
                    (extra.get('armed') or [0])[0], 'fault'), 1)
            src_refs = [v.get('ref') for v in (rec.get('rargs') or {}).values()
                        if isinstance(v, dict) and 'ref' in v]
            if any(r_ in tainted for r_ in src_refs):
                tainted.add(ev['id'])
                if tags.get('save'):
                    fs.setdefault(ev['args']['path'], {})['ack'] = None
                continue
            if ev['op'] == 'image' and rec['outcome'] == 'ok':
                self._check_channel_meta(ex, ev, rec['payload'],
                                         ev['args'].get('optics') or {},
                                         'construct')
            if ev['op'] == 'image' and rec['outcome'] == 'exc':
                ex.add(violation(
                    'C16.construct', ev['id'],
                    'image raised %s: %s' % (rec['exc'], rec['msg'][:100]),
                    sig='C16.construct:image:' + rec['exc']))
                continue
            if tags.get('save'):
                path = ev['args']['path']
                ex.stats['oracle_sim'] += 1
                st = fs.setdefault(path, {'ack': None})
                if rec['outcome'] == 'ok' and fired:
                    # third-party writers below HoloPy do not all honour the
                    # syscall contract: h5py / h5netcdf report some write
                    # errors only from finalizers (discarded by Python), and
                    # Pillow's TIFF encoder writes to the descriptor directly
                    # without retrying a short write.  A save that
                    # 'succeeded' while an injected fault fired inside it is
                    # therefore not relied upon (not HoloPy's code).
                    st['ack'] = None
                    ex.fault('io-fault-absorbed-by-third-party-writer', 1)
                elif rec['outcome'] == 'ok':
                    st['ack'] = (_d(rec['payload'])['saved'], tags)
                else:
                    st['ack'] = None
                    srcp = (ex.records.get((rec.get('rargs') or {}).get(
                        'img', {}).get('ref')) or {}).get('payload')
                    undefined = False
                    if tags['fmt'] == 'tif' and O.is_da(srcp):
                        nx = len(srcp['coords']['x']['values'])
                        ny = len(srcp['coords']['y']['values'])
                        v_ = np.asarray(srcp['values'], float)
                        # no spacing to record / no range to quantise
                        undefined = nx < 2 or ny < 2 or \
                            float(v_.max()) == float(v_.min()) or \
                            ('illumination' in srcp['dims'] and
                             tags.get('depth') != 8)   # documented limit
                    if undefined:
                        pass
                    elif not fired:
                        if rec['outcome'] == 'died':
                            ex.add(violation(
                                'C16.save', ev['id'],
                                'the interpreter died while saving an image '
                                '(%s)' % tags['k'], sig='C16.save:died'))
                        else:
                            ex.add(violation(
                                'C16.save', ev['id'],
                                '%s raised %s: %s' % (
                                    tags['k'], rec['exc'], rec['msg'][:120]),
                                sig='C16.save:%s:%s' % (tags['k'],
                                                        rec['exc'])))
            elif tags.get('load'):
                path = ev['args']['path']
                st = fs.get(path)
                if not st or st.get('ack') is None:
                    tainted.add(ev['id'])
                    continue
                ex.stats['oracle_sim'] += 1
                if rec['outcome'] != 'ok':
                    if fired:
                        continue
                    ex.add(violation(
                        'C16.load', ev['id'],
                        'loading an acknowledged %s image %s' % (
                            tags['fmt'], 'killed the interpreter'
                            if rec['outcome'] == 'died' else
                            'raised %s: %s' % (rec['exc'], rec['msg'][:120])),
                        sig='C16.load:%s:%s' % (tags['fmt'],
                                                rec.get('exc', 'died'))))
                    continue
                saved, stags = st['ack']
                if tags['fmt'] == 'h5':
                    self._cmp_h5(ex, ev, saved, rec['payload'], path)
                else:
                    self._cmp_tif(ex, ev, saved, rec['payload'], stags, path)
            elif tags.get('sload') and rec['outcome'] == 'ok':
                src = ex.records.get(rec['rargs']['blob'].get('ref'))
                if src and src['outcome'] == 'ok':
                    ex.stats['oracle_sim'] += 1
                    self._cmp_h5(ex, ev, _d(src['payload'])['saved'],
                                 rec['payload'], None)
            elif (tags.get('sload') or tags.get('ssave')) and \
                    rec['outcome'] == 'exc':
                ex.add(violation('C16.save', ev['id'],
                                 '%s raised %s: %s' % (
                                     tags['k'], rec['exc'], rec['msg'][:120]),
                                 sig='C16.save:%s:%s' % (tags['k'],
                                                         rec['exc'])))
            elif tags.get('li'):
                self._check_load_image(ex, ev, rec, tags)
            elif tags.get('avgmember') is not None and \
                    rec['outcome'] == 'ok':
                avg.setdefault(tags['avgmember'], {'members': [],
                                                   'results': []})[
                    'members'].append(rec['payload'])
            elif tags.get('avg') is not None:
                g = avg.setdefault(tags['avg'], {'members': [],
                                                 'results': []})
                g['results'].append((ev, rec))
            elif tags.get('um'):
                self._check_update(ex, ev, rec)
        for g in avg.values():
            self._check_average(ex, g)

    # ------------------------------------------------------------------
    def _cmp_meta(self, ex, ev, saved, got, what, path):
        sa, ga = attrs_plain(saved), attrs_plain(got)
        for k in ('medium_index', 'illum_wavelen', 'illum_polarization',
                  'noise_sd'):
            a, b_ = sa.get(k), ga.get(k)
            if not _meta_equal(a, b_):
                ex.add(violation(
                    'C16.metadata', ev['id'],
                    '%s: metadata %s changed: %s' % (
                        what, k, (canon.diff(a, b_) or '')[:120]),
                    sig='C16.metadata:%s:%s' % (what, k)))
                return False
        name = saved.get('name')
        want = name if name is not None else (
            path.rsplit('/', 1)[-1].rsplit('.', 1)[0] if path else None)
        if want is not None and got.get('name') != want:
            ex.add(violation('C16.metadata', ev['id'],
                             '%s: name %r became %r' % (what, want,
                                                        got.get('name')),
                             sig='C16.metadata:%s:name' % what))
            return False
        return True

    def _cmp_coords(self, ex, ev, saved, got, what, rtol=0.0):
        for d in saved['dims']:
            a = saved['coords'].get(d)
            b_ = got['coords'].get(d)
            if a is None or b_ is None:
                ex.add(violation('C16.coords', ev['id'],
                                 '%s: coordinate axis %s lost' % (what, d),
                                 sig='C16.coords:%s' % what))
                return False
            av, bv = np.asarray(a['values']), np.asarray(b_['values'])
            if av.dtype.kind in 'fiu' and bv.dtype.kind in 'fiu':
                ok = av.shape == bv.shape and np.all(
                    np.abs(av.astype(float) - bv.astype(float)) <=
                    rtol * np.maximum(1e-300, np.abs(av.astype(float))))
            else:
                ok = av.shape == bv.shape and \
                    list(map(str, av.tolist())) == list(map(str,
                                                            bv.tolist()))
            if not ok:
                ex.add(violation(
                    'C16.coords', ev['id'],
                    '%s: coordinate axis %s changed: %r -> %r' % (
                        what, d, av.tolist()[:4], bv.tolist()[:4]),
                    sig='C16.coords:%s' % what))
                return False
        return True

    def _cmp_h5(self, ex, ev, saved, got, path):
        if not O.is_da(got):
            ex.add(violation('C16.roundtrip', ev['id'],
                             'HDF5 load did not return an image (%s)' %
                             type(got).__name__, sig='C16.roundtrip:type'))
            return
        if list(saved['dims']) != list(got['dims']) or \
                saved['values'].shape != got['values'].shape:
            ex.add(violation('C16.roundtrip', ev['id'],
                             'HDF5: dims %s%s -> %s%s' % (
                                 saved['dims'], saved['values'].shape,
                                 got['dims'], got['values'].shape),
                             sig='C16.roundtrip:h5:dims'))
            return
        if saved['values'].dtype != got['values'].dtype or \
                saved['values'].tobytes() != got['values'].tobytes():
            ex.add(violation('C16.roundtrip', ev['id'],
                             'HDF5: values changed (%s -> %s, max diff %.3g)'
                             % (saved['values'].dtype, got['values'].dtype,
                                O.maxerr(saved['values'].astype(float),
                                         got['values'].astype(float))),
                             sig='C16.roundtrip:h5:values'))
            return
        if not self._cmp_coords(ex, ev, saved, got, 'h5'):
            return
        self._cmp_meta(ex, ev, saved, got, 'h5', path)

    def _cmp_tif(self, ex, ev, saved, got, stags, path):
        if not O.is_da(got):
            ex.add(violation('C16.roundtrip', ev['id'],
                             'TIFF load did not return an image',
                             sig='C16.roundtrip:type'))
            return
        sv = np.squeeze(saved['values'].astype(float))
        gv = np.squeeze(got['values'].astype(float))
        if sv.shape != gv.shape:
            ex.add(violation('C16.roundtrip', ev['id'],
                             'TIFF: shape %s -> %s' % (sv.shape, gv.shape),
                             sig='C16.roundtrip:tif:shape'))
            return
        rngv = float(sv.max() - sv.min())
        depth = stags.get('depth', 8)
        step = {8: rngv / 255, 16: rngv / 32767}.get(depth, 0.0)
        tol = 0.51 * step + 1e-6 * max(rngv, abs(float(sv.max())), 1e-300)
        err = O.maxerr(sv, gv)
        mx = ex.stats.setdefault('maxerr', {})
        key = 'tif%s/tol' % depth
        mx[key] = max(mx.get(key, 0.0), err / tol if tol else 0.0)
        if err > tol:
            ex.add(violation(
                'C16.roundtrip', ev['id'],
                'TIFF depth %s: values differ by %.3g, stated quantisation '
                'allows %.3g' % (depth, err, tol),
                sig='C16.roundtrip:tif:values:%s' % depth))
            return
        if not self._cmp_coords(ex, ev, saved, got, 'tif', rtol=1e-12):
            return
        self._cmp_meta(ex, ev, saved, got, 'tif', path)

    def _check_load_image(self, ex, ev, rec, tags):
        ex.stats['oracle_sampled'] += 1
        if rec['outcome'] != 'ok':
            ex.add(violation('C16.load_image', ev['id'],
                             'load_image raised %s: %s' % (
                                 rec['exc'], rec['msg'][:100]),
                             sig='C16.load_image:exc:' + rec['exc']))
            return
        raw = None
        for e in ex.run['events']:
            if e.get('op') == 'raw_tiff' and \
                    e['args']['path'] == tags['raw']:
                r = ex.records.get(e['id'])
                if r and r['outcome'] == 'ok':
                    raw = np.asarray(r['payload'])
        if raw is None:
            return
        p = rec['payload']
        sp = ev['args']['spacing']
        if isinstance(sp, dict):
            sp = sp.get('tuple') or sp.get('arr')
        sp = sp if isinstance(sp, list) else [sp, sp]
        xs = np.asarray(p['coords']['x']['values'], float)
        ys = np.asarray(p['coords']['y']['values'], float)
        if not (np.allclose(xs, np.arange(raw.shape[0]) * sp[0],
                            rtol=1e-14, atol=0) and
                np.allclose(ys, np.arange(raw.shape[1]) * sp[1],
                            rtol=1e-14, atol=0)):
            ex.add(violation('C16.load_image', ev['id'],
                             'pixel (i, j) is not at (i*s_x, j*s_y)',
                             sig='C16.load_image:coords'))
            return
        ch = ev['args'].get('channel')
        vals = np.squeeze(np.asarray(p['values'], float))
        if raw.ndim == 3:
            if ch == 'all':
                want = raw.astype(float)
            elif isinstance(ch, list):
                want = raw[:, :, ch].astype(float)
            else:
                want = raw[:, :, ch].astype(float)
            want = np.squeeze(want)
        else:
            want = raw.astype(float)
        if vals.shape != want.shape or not np.array_equal(vals, want):
            ex.add(violation('C16.load_image', ev['id'],
                             'loaded pixel values / channels %r differ from '
                             'the raster' % (ch,),
                             sig='C16.load_image:values'))

    def _check_average(self, ex, g):
        if not g['members'] or not g['results']:
            return
        mem = [np.squeeze(np.asarray(m['values'], float))
               for m in g['members']]
        n = g['results'][0][0]['tags']['n']
        if len(mem) != n:
            return
        stack = np.stack(mem)
        mean = stack.mean(axis=0)
        std = stack.std(axis=0)
        with np.errstate(all='ignore'):
            noise = float(np.mean(std / mean))
        outs = []
        for ev, rec in g['results']:
            ex.stats['oracle_sim'] += 1
            if rec['outcome'] != 'ok':
                ex.add(violation('C16.average', ev['id'],
                                 'load_average raised %s: %s' % (
                                     rec['exc'], rec['msg'][:100]),
                                 sig='C16.average:exc:' + rec['exc']))
                continue
            p = rec['payload']
            v = np.squeeze(np.asarray(p['values'], float))
            mean_, std_ = mean, std
            if ev['tags'].get('refimg'):
                rrec = ex.records.get(rec['rargs']['refimg'].get('ref'))
                if not rrec or rrec['outcome'] != 'ok':
                    continue
                rp = rrec['payload']
                rx = len(rp['coords']['x']['values'])
                ry = len(rp['coords']['y']['values'])
                o0, o1 = ex.events_by_id[rrec['id']]['args'].get(
                    'origin') or [0, 0]
                mean_ = mean[o0:o0 + rx, o1:o1 + ry]
                std_ = std[o0:o0 + rx, o1:o1 + ry]
                with np.errstate(all='ignore'):
                    noise_r = float(np.mean(std_ / mean_))
                # coordinates and metadata come from the reference image
                if not self._cmp_coords(ex, ev, {
                        'dims': ['x', 'y'], 'coords': rp['coords']}, p,
                        'average-refimg'):
                    continue
                ra_, pa_ = attrs_plain(rp), attrs_plain(p)
                bad = [k_ for k_ in ('medium_index', 'illum_wavelen',
                                     'illum_polarization')
                       if not _meta_equal(ra_.get(k_), pa_.get(k_))]
                if bad:
                    ex.add(violation(
                        'C16.average', ev['id'],
                        'averaged image does not carry the reference '
                        'image\'s %s' % bad[0],
                        sig='C16.average:refimg-metadata'))
                    continue
            else:
                noise_r = noise
            scale = max(1.0, float(np.max(np.abs(mean_))))
            if v.shape != mean_.shape or O.maxerr(v, mean_) > 1e-12 * scale:
                ex.add(violation('C16.average', ev['id'],
                                 'average differs from the pixelwise mean by '
                                 '%.3g' % (O.maxerr(v, mean_)
                                           if v.shape == mean_.shape
                                           else float('nan')),
                                 sig='C16.average:mean'))
                continue
            ns = attrs_plain(p).get('noise_sd')
            nsv = float(np.asarray(
                ns['values'] if O.is_da(ns) else
                (ns['v'] if isinstance(ns, dict) else ns),
                dtype=float).reshape(-1)[0])
            if np.isfinite(noise_r) and abs(nsv - noise_r) > 1e-11 * max(
                    1, abs(noise_r)):
                ex.add(violation('C16.average', ev['id'],
                                 'relative noise %r, batch value %r' % (
                                     nsv, noise_r), sig='C16.average:noise'))
                continue
            if ev['tags'].get('refimg'):
                ex.fault('probe:average-with-refimg-judged', 1)
            outs.append((ev, v, nsv))
        for i in range(1, len(outs)):
            if O.maxerr(outs[i][1], outs[0][1]) > 1e-12 * max(
                    1.0, float(np.max(np.abs(outs[0][1])))) or \
                    abs(outs[i][2] - outs[0][2]) > 1e-12 * max(
                        1, abs(outs[0][2])):
                ex.add(violation('C16.average', outs[i][0]['id'],
                                 'two file orders give different averages',
                                 sig='C16.average:order'))

    def _check_channel_meta(self, ex, ev, p, optics, what):
        """Per-channel metadata given as {channel: value}: every channel
        carries its own value, whatever the order of the keys."""
        if not O.is_da(p):
            return True
        at = attrs_plain(p)
        for k, v in optics.items():
            if not (isinstance(v, dict) and 'dict' in v):
                continue
            ex.stats['oracle_sim'] += 1
            got = at.get(k)
            if not O.is_da(got) or 'illumination' not in got['coords']:
                ex.add(violation(
                    'C16.channels', ev['id'],
                    '%s: per-channel %s is not labelled by channel' % (
                        what, k), sig='C16.channels:%s:%s' % (what, k)))
                return False
            labels = [str(x) for x in np.asarray(
                got['coords']['illumination']['values']).tolist()]
            vals = np.asarray(got['values'], float).reshape(-1).tolist()
            have = dict(zip(labels, vals))
            for ch, want in v['dict']:
                if ch not in have or have[ch] != want:
                    ex.add(violation(
                        'C16.channels', ev['id'],
                        '%s: %s of channel %r is %r, the dictionary says %r'
                        % (what, k, ch, have.get(ch), want),
                        sig='C16.channels:%s:%s' % (what, k)))
                    return False
        return True

    def _check_update(self, ex, ev, rec):
        ex.stats['oracle_sim'] += 1
        if rec['outcome'] != 'ok':
            # per-channel values only make sense for an image that has
            # those channels (after a node death a handle can resolve to
            # another image than the one the values were drawn for): a
            # refusal is then the right answer
            tgt = ex.records.get(((rec.get('rargs') or {}).get('img')
                                  or {}).get('ref'))
            labels = []
            if tgt and O.is_da(tgt.get('payload')) and \
                    'illumination' in tgt['payload']['coords']:
                labels = [str(x) for x in np.asarray(
                    tgt['payload']['coords']['illumination']['values']
                ).tolist()]
            for v_ in (ev['args'].get('optics') or {}).values():
                if isinstance(v_, dict) and 'dict' in v_ and \
                        sorted(k_ for k_, _ in v_['dict']) != sorted(labels):
                    return
            ex.add(violation('C16.update', ev['id'],
                             'update_metadata raised %s: %s' % (
                                 rec['exc'], rec['msg'][:100]),
                             sig='C16.update:exc:' + rec['exc']))
            return
        src = ex.records.get(rec['rargs']['img'].get('ref'))
        if not src or src['outcome'] != 'ok' or \
                not O.is_da(src.get('payload')):
            return
        sp, gp = src['payload'], rec['payload']
        if ex.events_by_id[src['id']]['op'] == 'img_save':
            return
        if canon.digest(sp['values']) != canon.digest(gp['values']) or \
                canon.digest(sp['coords']) != canon.digest(gp['coords']) or \
                sp.get('name') != gp.get('name'):
            ex.add(violation('C16.update', ev['id'],
                             'update_metadata changed values, coordinates '
                             'or name', sig='C16.update:data'))
            return
        o = ev['args']['optics']
        if not self._check_channel_meta(ex, ev, gp, o, 'update'):
            return
        sa, ga = attrs_plain(sp), attrs_plain(gp)
        for k in ('medium_index', 'illum_wavelen', 'illum_polarization',
                  'noise_sd'):
            if k in o and o[k] is not None:
                if k == 'illum_polarization':
                    pv = o[k]['xda']['values'] if isinstance(o[k], dict) \
                        else o[k]
                    want = O.normalized_pol(pv)
                    gv = ga.get(k)
                    if not O.is_da(gv) or np.max(np.abs(
                            gv['values'] - want)) > 4 * EPS:
                        ex.add(violation(
                            'C16.update', ev['id'],
                            'polarization not normalised to %r' % want,
                            sig='C16.update:polarization'))
                        return
                elif isinstance(o[k], dict):
                    continue          # judged by _check_channel_meta
                else:
                    gv = ga.get(k)
                    gv = gv['v'] if isinstance(gv, dict) and \
                        '__npscalar__' in gv else gv
                    if not (np.asarray(gv) == np.asarray(o[k])).all():
                        ex.add(violation(
                            'C16.update', ev['id'],
                            '%s is %r after update to %r' % (k, gv, o[k]),
                            sig='C16.update:named:' + k))
                        return
            elif canon.digest(sa.get(k)) != canon.digest(ga.get(k)):
                ex.add(violation('C16.update', ev['id'],
                                 'field %s, which was not named, changed' % k,
                                 sig='C16.update:unnamed:' + k))
                return


def _d(p):
    if isinstance(p, dict) and '__dict__' in p:
        return {k: v for k, v in p['__dict__']}
    return p


def _val(x):
    if O.is_da(x):
        return ('da', np.asarray(x['values']).astype(float).tolist(),
                {k: [str(i) for i in np.asarray(c['values']).tolist()]
                 for k, c in x['coords'].items()})
    if isinstance(x, dict) and '__npscalar__' in x:
        return np.asarray(x['v']).item()
    if isinstance(x, np.ndarray):
        return x.tolist()
    if isinstance(x, dict) and '__tuple__' in x:
        return [_val(i) for i in x['__tuple__']]
    if isinstance(x, list):
        return [_val(i) for i in x]
    return x


def _meta_equal(a, b):
    va, vb = _val(a), _val(b)
    if va == vb:
        return True
    try:
        return bool(np.all(np.asarray(va, dtype=float) ==
                           np.asarray(vb, dtype=float)))
    except Exception:
        return False


PROP = C16()
