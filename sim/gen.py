"""Generator helpers: event builder with a model of live handles, and seeded
drawing of physical arguments.  Everything is drawn from the run's PRNG."""
import math


class Builder:
    def __init__(self, rng):
        self.rng = rng
        self.events = []
        self.live = {}        # kind -> [meta dicts] (generator's model)
        self._id = 0

    def emit(self, op, args=None, store=None, tags=None, meta=None):
        ev = {'id': self._id, 'op': op, 'args': args or {}}
        self._id += 1
        if store:
            ev['store'] = store
            self.live.setdefault(store, []).append(meta or {})
        if tags:
            ev['tags'] = tags
        self.events.append(ev)
        if store:
            return {'h': store, 'i': len(self.live[store]) - 1}
        return None

    def count(self, kind):
        return len(self.live.get(kind, []))

    def pick(self, kind, pred=None):
        """Random live handle of the kind (optionally filtered by meta)."""
        metas = self.live.get(kind, [])
        idx = [i for i, m in enumerate(metas) if pred is None or pred(m)]
        if not idx:
            return None, None
        i = self.rng.choice(idx)
        return {'h': kind, 'i': i}, metas[i]

    def restart(self):
        self.events.append({'op': 'RESTART'})
        self.live = {}


def rfloat(rng, lo, hi, digits=6):
    return round(rng.uniform(lo, hi), digits)


def cplx(re, im):
    return {'c': [re, im]}


WAVELEN = 0.66
MEDIUM = 1.33


def draw_optics(rng, pol=None):
    o = {'medium_index': rng.choice([1.33, 1.0, 1.41, rfloat(rng, 1.0, 1.5)]),
         'illum_wavelen': rng.choice([0.66, 0.405, 0.532,
                                      rfloat(rng, 0.4, 0.8)])}
    if pol is None:
        c = rng.random()
        if c < 0.45:
            pol = [1, 0]
        elif c < 0.6:
            pol = [0, 1]
        elif c < 0.8:
            a = rfloat(rng, 0, 2 * math.pi)
            pol = [round(math.cos(a), 9), round(math.sin(a), 9)]
        else:
            pol = [rfloat(rng, -2, 2), rfloat(rng, 0.1, 2)]   # unnormalised
    o['illum_polarization'] = pol
    return o


def draw_index(rng, absorbing_p=0.3):
    n = rfloat(rng, 1.38, 1.75, 4)
    if rng.random() < absorbing_p:
        return cplx(n, rng.choice([0.001, 0.01, 0.05, rfloat(rng, 0, 0.1, 4)]))
    return n


def draw_center(rng, extent, zlo=4.0, zhi=18.0):
    return [rfloat(rng, -0.2 * extent[0], 1.2 * extent[0], 4),
            rfloat(rng, -0.2 * extent[1], 1.2 * extent[1], 4),
            rfloat(rng, zlo, zhi, 4)]
