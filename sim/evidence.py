"""Aggregate run summaries and write /verif/evidence/<id>.json."""
import json
import os

VERIF = os.path.dirname(os.path.dirname(os.path.abspath(__file__)))

COMPONENTS = {
    'real': ['holopy/* (Python, imported from the repository working tree)',
             'Fortran extensions mieangfuncs, scsmfo_min, uts_scsmfo, S '
             '(built from the working tree)',
             'numpy, scipy, xarray, h5py/h5netcdf, PyYAML, Pillow',
             'files on the sandbox file system; libc I/O through the '
             'interposing shim'],
    'stub': ['time module of holopy.inference.{nmpfit,scipyfit,emcee,cmaes} '
             '(SimClock)',
             'glob in holopy.core.io.io (real glob + seeded permutation)',
             'numpy.random.{seed,choice,uniform,normal,poisson} (recording '
             'wrappers around the real global RandomState)',
             'scsmfo_min.amncalc proxy (armed solver failure)',
             'emcee / cma / schwimmbad / numexpr / adda: absent'],
}


class Aggregate:
    def __init__(self, pid, tier, seed):
        self.pid = pid
        self.tier = tier
        self.seed = seed
        self.runs = 0
        self.ops = {}
        self.outcomes = {}
        self.faults = {}
        self.states = set()
        self.oracle_sim = 0
        self.oracle_sampled = 0
        self.node_deaths = 0
        self.restarts = 0
        self.pristine_nodes = 0
        self.sim_seconds = 0.0
        self.samples = []
        self.known = {}
        self.selftest_n = 0
        self.selftest_ok = 0
        self.timeouts = 0
        self.extra = {}
        self.maxerr = {}
        self.seeds = []

    def add(self, res):
        st = res['stats']
        self.runs += 1
        if len(self.seeds) < 8:
            self.seeds.append(res['seed'])
        for k, v in st['ops'].items():
            self.ops[k] = self.ops.get(k, 0) + v
        for k, v in st['outcomes'].items():
            self.outcomes[k] = self.outcomes.get(k, 0) + v
        for k, v in st['faults_fired'].items():
            self.faults[k] = self.faults.get(k, 0) + v
        for s in st['states']:
            self.states.add(tuple(s))
        self.oracle_sim += st['oracle_sim']
        self.oracle_sampled += st['oracle_sampled']
        self.node_deaths += st['node_deaths']
        self.restarts += st['restarts']
        self.pristine_nodes += st['pristine_nodes']
        self.sim_seconds += st.get('sim_seconds', 0.0)
        for k, v in st.get('extra', {}).items():
            if isinstance(v, (int, float)):
                self.extra[k] = self.extra.get(k, 0) + v
        for k, v in st.get('maxerr', {}).items():
            self.maxerr[k] = max(self.maxerr.get(k, 0.0), v)
        for k, v in st.get('known_seen', {}).items():
            self.known[k] = self.known.get(k, 0) + v
        if len(self.samples) < 3 and 'run' in res:
            self.samples.append({'seed': res['seed'],
                                 'events': _trim(res['run']['events'])})
        elif len(self.samples) < 3 and st.get('sample'):
            self.samples.append({'seed': res['seed'], 'events': st['sample']})

    def known_seen(self, what):
        self.known[what] = self.known.get(what, 0) + 1

    def selftest(self, n, ok):
        self.selftest_n = n
        self.selftest_ok = ok

    def total_ops(self):
        return sum(self.ops.values())


def _trim(events, n=12):
    out = []
    for e in events[:n]:
        d = {k: e[k] for k in ('op', 'args', 'store') if k in e}
        txt = json.dumps(d, default=str)
        out.append(d if len(txt) < 600 else {'op': e['op'],
                                             'args': txt[:600] + '...'})
    if len(events) > n:
        out.append('... %d more events' % (len(events) - n))
    return out


def write(agg, prop, wall, nviol, known_lines):
    os.makedirs(os.path.join(VERIF, 'evidence'), exist_ok=True)
    rule = getattr(prop, 'RULE', None) or (
        'One case = one seeded simulated session (operation sequence + fault '
        'schedule + restarts) generated from the run seed. '
        'distinct_nontrivial counts the distinct (hidden-state fingerprint '
        'before/after the call, operation, operation flavour) triples at '
        'which an operation completed in a history node, i.e. the distinct '
        'session states in which the oracles were evaluated.')
    samples = agg.samples or [{'note': 'no sample retained'}]
    cov = {
        'evaluations': agg.runs,
        'distinct_nontrivial': len(agg.states),
        'rule': rule,
        'samples': samples,
        'runs_per_hour': round(agg.runs / max(wall, 1e-9) * 3600, 1),
        'seeds': agg.seeds,
        'operations_executed': agg.total_ops(),
        'ops_by_kind': dict(sorted(agg.ops.items())),
        'outcomes': dict(sorted(agg.outcomes.items())),
        'faults_fired': dict(sorted(agg.faults.items())),
        'oracle_evaluations': {'sim': agg.oracle_sim,
                               'sampled': agg.oracle_sampled},
        'pristine_nodes_forked': agg.pristine_nodes,
        'node_deaths': agg.node_deaths,
        'restarts': agg.restarts,
        'simulated_seconds': round(agg.sim_seconds, 3),
        'harness_timeouts': agg.timeouts,
        'determinism_selftest': {'seeds_rerun': agg.selftest_n,
                                 'digests_equal': agg.selftest_ok},
        'components': COMPONENTS,
        'known_findings_seen': agg.known,
        'known_finding_lines': known_lines,
        'extra_counters': agg.extra,
        'max_observed_error_by_relation': {
            k: float('%.3g' % v) for k, v in sorted(agg.maxerr.items())},
        'exhaustive': False,
    }
    doc = {
        'property_id': agg.pid,
        'tier': agg.tier,
        'seed': int(agg.seed),
        'level': 'exploration',
        'coverage': cov,
        'assumptions': list(getattr(prop, 'ASSUMPTIONS', [])) + [
            'a clean batch is evidence, not proof: seeded sampling of '
            'histories and fault schedules',
            'single BLAS/OpenMP thread; bitwise comparisons are between '
            'executions of the same binary on the same machine'],
        'wall_s': round(wall, 2),
        'violations': int(nviol),
    }
    path = os.path.join(VERIF, 'evidence', agg.pid + '.json')
    tmp = path + '.tmp'
    with open(tmp, 'w') as f:
        json.dump(doc, f, indent=1, default=str)
    os.replace(tmp, path)
    return path
