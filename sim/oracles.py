"""Helpers shared by property oracles (work on *plain* payloads)."""
import math

import numpy as np

EPS = np.finfo(float).eps


def is_da(p):
    return isinstance(p, dict) and '__da__' in p


def attrs_of(p):
    return {k: v for k, v in p['attrs']['__dict__']}


def coord(p, name):
    c = p['coords'].get(name)
    if c is None:
        return None
    v = c['values']
    return v


def as_points(p):
    """Decompose a plain DataArray into (pts (N,3) or None, vals (N, ...),
    rest_dims, coordnames).  Spatial dims are x,y,z (grid) or flat / point."""
    dims = list(p['dims'])
    vals = p['values']
    sp = [d for d in dims if d in ('flat', 'point')]
    if sp:
        d = sp[0]
        names = ('x', 'y', 'z')
        if 'x' not in p['coords'] or p['coords']['x']['dims'] != [d]:
            names = ('r', 'theta', 'phi')
        if d == 'point' and not any(
                nm in p['coords'] for nm in ('x', 'y', 'theta', 'phi')):
            # results on point detectors are positional: point i <-> i
            n = vals.shape[dims.index(d)]
            idx = p['coords'].get('point')
            idx = np.asarray(idx['values'], dtype=float) if idx is not None \
                else np.arange(n, dtype=float)
            pts = np.stack([idx, np.zeros(n), np.zeros(n)], axis=1)
            v = np.moveaxis(vals, dims.index(d), 0)
            return pts, v, [x for x in dims if x != d], ('point',)
        cols = []
        n = vals.shape[dims.index(d)]
        for nm in names:
            c = p['coords'].get(nm)
            if c is None:
                cols.append(np.full(n, np.nan))
            elif c['dims'] == [d]:
                cols.append(np.asarray(c['values'], dtype=float))
            else:
                cols.append(np.full(n, float(np.asarray(c['values']))))
        pts = np.stack(cols, axis=1)
        v = np.moveaxis(vals, dims.index(d), 0)
        rest = [x for x in dims if x != d]
        return pts, v, rest, names
    gd = [d for d in dims if d in ('x', 'y', 'z')]
    axes = [np.asarray(p['coords'][d]['values'], dtype=float) for d in gd]
    mesh = np.meshgrid(*axes, indexing='ij') if axes else []
    cols = {}
    for d, m in zip(gd, mesh):
        cols[d] = m.reshape(-1)
    n = int(np.prod([len(a) for a in axes])) if axes else 1
    for d in ('x', 'y', 'z'):
        if d not in cols:
            c = p['coords'].get(d)
            if c is not None and np.asarray(c['values']).size == 1:
                cols[d] = np.full(n, float(np.asarray(c['values']).reshape(-1)[0]))
            else:
                cols[d] = np.full(n, np.nan)
    pts = np.stack([cols['x'], cols['y'], cols['z']], axis=1)
    order = [dims.index(d) for d in gd]
    rest = [x for x in dims if x not in gd]
    v = np.transpose(vals, order + [dims.index(x) for x in rest])
    v = v.reshape((n,) + v.shape[len(gd):])
    return pts, v, rest, ('x', 'y', 'z')


def point_map(p):
    """{(x,y,z) -> value row} for a plain DataArray (exact float keys)."""
    pts, v, rest, names = as_points(p)
    out = {}
    for i in range(len(pts)):
        out[tuple(float(c) for c in pts[i])] = v[i]
    return out, rest


def normalized_pol(pol):
    pol = [complex(*x['c']) if isinstance(x, dict) and 'c' in x else x
           for x in pol]
    c = np.array(pol, dtype=complex if any(isinstance(x, complex)
                                           for x in pol) else float)
    if c.shape == (2,):
        c = np.append(c, 0)
    return c / np.sqrt(np.sum(np.abs(c) ** 2))


def all_finite(p):
    v = p['values'] if is_da(p) else np.asarray(p)
    return bool(np.all(np.isfinite(v)))


def close(a, b, rtol, atol=0.0):
    a = np.asarray(a)
    b = np.asarray(b)
    if a.shape != b.shape:
        return False
    return bool(np.all(np.abs(a - b) <= atol + rtol * np.abs(b)))


def maxerr(a, b):
    a = np.asarray(a)
    b = np.asarray(b)
    with np.errstate(invalid='ignore'):
        d = np.abs(a - b)
    return float(np.nanmax(d)) if d.size else 0.0
