"""Build the four Fortran extensions of the *current working tree* of the repo
outside the repo (hash-keyed), plus the LD_PRELOAD I/O shim.

Nothing is ever written into the repository: the pinned test baseline expects
the extensions to be absent there.  See DESIGN.md Appendix B.
"""
import hashlib
import os
import shutil
import subprocess
import sys
import sysconfig
import tempfile

VERIF = os.path.dirname(os.path.dirname(os.path.abspath(__file__)))
BUILD = os.path.join(VERIF, 'build')
FLAGS = '-O2 -fPIC -w'


def _specs(repo):
    th = os.path.join(repo, 'holopy', 'scattering', 'theory')
    tp = os.path.join(repo, 'holopy', 'scattering', 'third_party')
    mf = os.path.join(th, 'mie_f')
    tf = os.path.join(th, 'tmatrix_f')
    return [
        ('mie_f', 'uts_scsmfo',
         [os.path.join(mf, 'uts_scsmfo.for'), os.path.join(tp, 'SBESJY.F')],
         mf, []),
        ('mie_f', 'mieangfuncs',
         [os.path.join(mf, 'mieangfuncs.f90'),
          os.path.join(mf, 'uts_scsmfo.for'),
          os.path.join(tp, 'SBESJY.F'), os.path.join(tp, 'csphjy.for')],
         mf, []),
        ('mie_f', 'scsmfo_min', [os.path.join(mf, 'scsmfo_min.for')], mf,
         [os.path.join(mf, 'scfodim.for')]),
        ('tmatrix_f', 'S',
         [os.path.join(tf, 'S.f'), os.path.join(tf, 'ampld.lp.f'),
          os.path.join(tf, 'lpd.f')], tf,
         [os.path.join(tf, 'ampld.par.f')]),
    ]


def source_hash(repo):
    h = hashlib.sha256()
    h.update(FLAGS.encode())
    h.update(sys.version.encode())
    import numpy
    h.update(numpy.__version__.encode())
    for pkg, name, srcs, inc, extra in _specs(repo):
        for f in srcs + extra:
            h.update(os.path.basename(f).encode())
            with open(f, 'rb') as fh:
                h.update(fh.read())
    return h.hexdigest()[:20]


def _build_one(spec, outdir):
    import numpy
    import numpy.f2py
    pkg, name, srcs, incdir, extra = spec
    work = tempfile.mkdtemp(prefix='verif-f2py-' + name + '-')
    try:
        env = dict(os.environ)
        env.pop('LD_PRELOAD', None)
        subprocess.run(
            [sys.executable, '-m', 'numpy.f2py'] + srcs +
            ['-m', name, '--lower', '--build-dir', work],
            check=True, stdout=subprocess.DEVNULL, stderr=subprocess.PIPE,
            cwd=work, env=env)
        pyinc = sysconfig.get_paths()['include']
        npinc = numpy.get_include()
        f2pysrc = os.path.join(os.path.dirname(numpy.f2py.__file__), 'src')
        csrcs = [os.path.join(work, name + 'module.c'),
                 os.path.join(f2pysrc, 'fortranobject.c')]
        subprocess.run(
            ['gcc', '-O2', '-fPIC', '-w',
             '-DNPY_NO_DEPRECATED_API=NPY_1_9_API_VERSION',
             '-I' + pyinc, '-I' + npinc, '-I' + f2pysrc, '-c'] + csrcs,
            check=True, cwd=work, env=env)
        wrappers = [os.path.join(work, f) for f in sorted(os.listdir(work))
                    if 'f2pywrappers' in f]
        subprocess.run(
            ['gfortran'] + FLAGS.split() + ['-I' + incdir, '-c'] + srcs +
            wrappers, check=True, cwd=work, env=env)
        objs = [os.path.join(work, f) for f in sorted(os.listdir(work))
                if f.endswith('.o')]
        dest = os.path.join(outdir, pkg)
        os.makedirs(dest, exist_ok=True)
        target = os.path.join(
            dest, name + sysconfig.get_config_var('EXT_SUFFIX'))
        subprocess.run(
            ['gfortran', '-shared', '-o', target + '.tmp'] + objs +
            ['-lquadmath'], check=True, cwd=work, env=env)
        os.replace(target + '.tmp', target)
    finally:
        shutil.rmtree(work, ignore_errors=True)


def ensure_extensions(repo):
    """Return the directory holding {mie_f,tmatrix_f}/<ext>.so for the
    repo's current Fortran sources, building it if necessary."""
    from concurrent.futures import ThreadPoolExecutor
    h = source_hash(repo)
    outdir = os.path.join(BUILD, 'ext-' + h)
    stamp = os.path.join(outdir, 'OK')
    if os.path.exists(stamp):
        return outdir
    tmp = outdir + '.tmp%d' % os.getpid()
    shutil.rmtree(tmp, ignore_errors=True)
    os.makedirs(tmp)
    specs = _specs(repo)
    with ThreadPoolExecutor(4) as ex:
        list(ex.map(lambda s: _build_one(s, tmp), specs))
    open(os.path.join(tmp, 'OK'), 'w').close()
    if os.path.exists(outdir):
        shutil.rmtree(outdir, ignore_errors=True)
    try:
        os.rename(tmp, outdir)
    except OSError:
        shutil.rmtree(tmp, ignore_errors=True)
        if not os.path.exists(stamp):
            raise
    # keep at most 4 old builds
    olds = sorted(
        (d for d in os.listdir(BUILD) if d.startswith('ext-') and
         os.path.exists(os.path.join(BUILD, d, 'OK'))),
        key=lambda d: os.path.getmtime(os.path.join(BUILD, d)))
    for d in olds[:-4]:
        if os.path.join(BUILD, d) != outdir:
            shutil.rmtree(os.path.join(BUILD, d), ignore_errors=True)
    return outdir


def ensure_shim():
    src = os.path.join(VERIF, 'sim', 'shim', 'simio.c')
    out = os.path.join(BUILD, 'libsimio.so')
    os.makedirs(BUILD, exist_ok=True)
    if (not os.path.exists(out) or
            os.path.getmtime(out) < os.path.getmtime(src)):
        env = dict(os.environ)
        env.pop('LD_PRELOAD', None)
        subprocess.run(['gcc', '-O2', '-shared', '-fPIC', '-o',
                        out + '.tmp%d' % os.getpid(), src, '-ldl'],
                       check=True, env=env)
        os.replace(out + '.tmp%d' % os.getpid(), out)
    return out


if __name__ == '__main__':
    repo = os.environ.get('VERIF_REPO', '/repo')
    print(ensure_shim())
    print(ensure_extensions(repo))
