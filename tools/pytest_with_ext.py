#!/venv/bin/python
"""Run repository tests with the Fortran extensions built by /verif (not part
of any registered check; used to validate fix: commits against tests that the
pinned baseline cannot run because the extensions are absent there)."""
import os, sys
VERIF = os.path.dirname(os.path.dirname(os.path.abspath(__file__)))
sys.path.insert(0, VERIF)
from sim import build, boot
import sysconfig
repo = os.environ.get('VERIF_REPO', '/repo')
extdir = build.ensure_extensions(repo)
sys.meta_path.insert(0, boot._ExtFinder(extdir))
sys.path.insert(0, repo)
os.chdir(repo)
import pytest
sys.exit(pytest.main(['-q', '-p', 'no:cacheprovider', '-x', '--no-header'] + sys.argv[1:]))
