#!/bin/sh
# usage: tools/seeded_eval.sh <ID> [srcdir] [extra check args]   (srcdir default /verif/seeded/<ID>)
# 1. confirm the change independently in a scratch worktree (baseline passes, demo fails with / passes without)
# 2. apply it to /repo, run the check, undo it.   Prints a summary; writes nothing under /verif.
ID="$1"; SRC="${2:-/verif/seeded/$ID}"
[ $# -ge 2 ] && shift 2 || shift 1
PATCH="$SRC/patch.diff"; DEMO="$SRC/demo.py"
W=/tmp/sw-$ID
git -C /repo worktree remove --force $W 2>/dev/null; rm -rf $W
git -C /repo worktree add -q --detach $W HEAD || exit 3
echo "== clean demo"; /verif/tools/hprun.py $W $DEMO >/tmp/sw-$ID.clean.log 2>&1; echo "clean demo exit=$?"
git -C $W apply "$PATCH" || { echo "PATCH DOES NOT APPLY"; git -C /repo worktree remove --force $W; exit 3; }
echo "== baseline with change"; VERIF_REPO=$W /verif/tools/baseline.py | tail -1
echo "== changed demo"; /verif/tools/hprun.py $W $DEMO >/tmp/sw-$ID.changed.log 2>&1; echo "changed demo exit=$?"; tail -2 /tmp/sw-$ID.changed.log
git -C /repo worktree remove --force $W; rm -rf $W
echo "== check on /repo with change applied"
git -C /repo apply "$PATCH" || exit 3
cd /verif && timeout 3000 ./check $ID --no-evidence "$@" 2>&1 | grep -v "^VIOLATION" | tail -4 | cut -c1-300
git -C /repo checkout -- .
git -C /repo status --short
