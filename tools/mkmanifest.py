#!/usr/bin/env python3
"""Regenerate MANIFEST.json from the table below (keeps it valid at all times)."""
import json, os
VERIF = os.path.dirname(os.path.dirname(os.path.abspath(__file__)))

NA = {
 'C02': 'Pure function of (index, size, position, options): cross-solver agreement has no history, clock, I/O, RNG, fault or peer to simulate; the stateful side of the solvers (static storage between calls) is decided under C01.',
 'C03': 'Pure per-call numerical identities over (index, size); deciding them needs independent quadrature over the input domain (input generation), not simulation.',
 'C04': 'Metamorphic relation between two pure calls (rescaling of lengths / indices); no schedule, fault or history dimension.',
 'C05': 'Covariance relation over a continuous group of inputs of pure calls; nothing for a simulator to schedule or fault.',
 'C06': 'Pure algebraic relations between calls (superposition, polarization linearity, channel stacking); the only history aspect (one interpreter re-used by the per-channel loop) is covered by C01.',
 'C08': 'Agreement of two implementations over a 5-dimensional input space and independence from accuracy knobs: pure per-call comparisons (numexpr is also absent from the sandbox).',
 'C09': 'Permutation of an argument list, rotation of inputs and a pure dispatch rule; not schedules. The external adda solver is absent.',
 'C17': 'Pure per-call algebra of FFT / propagation (shape parity, distances); no history, I/O, RNG, clock or peer.',
 'C19': 'Pure functions of points and angles.',
}
NOT_YET = {}   # claimed in DESIGN.md but check not built yet: id -> reason

CHECKS = {
 'C01': ('Seeded search over simulated sessions: every calculation of a random history (re-ordered, repeated, across restarts, with foreign RNG draws, injected solver failures and raising calls) must equal, bit for bit, the same calculation in a pristine interpreter; no operation may modify a shared detector/scatterer/theory object; the hologram/intensity/scaling-0/metadata identities are evaluated on every operation of those histories.', '5 C01',
         'history independence by pristine-node refinement + purity fingerprints, seeded histories with restart / RNG / solver faults'),
 'C10': ('Seeded search over simulated sessions supervised from outside the interpreter: T-matrix calculations with in-range, negative, beyond-range, huge and denormal Euler angles and sizes up to and past the convergence edge, interleaved with other solvers and restarts; a node that disappears during a scattering operation is the violation; every calculation must also equal the pristine-node result (COMMON-block state survives failed calls). Sphere-limit / symmetry / angle-reduction identities are evaluated on atomic calculation pairs inside the same histories.', '5 C10',
         'process-lifetime supervision of forked interpreter nodes + pristine-node refinement over seeded histories'),
 'C07': ('Seeded search over simulated sessions in which every operation shares one image object: full-grid, permuted point-list, subset-then-calculate, calculate-then-subset, crop-then-calculate and calculate-then-crop routes are interleaved with foreign draws / reseeds of the global NumPy RNG and restarts; every route must give, at each of its points, the value of the pristine full-grid calculation (bit for bit for the non-lens theories); the pixel draw is observed at the RNG seam (replace=False, population, seeding) and must equal the documented draw for the seed or for the generator state at the call; the shared image must never change.', '5 C07',
         'order-convergence of operation routes + RNG-seam reference + purity fingerprints over seeded histories with RNG interference and restarts'),
 'C20': ('Seeded search over simulated sessions that repeat identical (and different) sphere-collection constructions from one call site, interleaved with other warnings, scoped catch_warnings blocks, Spheres.add mutations, queries and restarts: exactly the overlapping warn=True constructions must emit one OverlapWarning at every position of the history (process-global warning filters / once-per-location registries are the hidden state). Analytic containment, layer, index, CSG, translation, bounding-box, voxel-volume, overlap-pair and rejection checks are evaluated on the operations of the same histories.', '5 C20',
         'warning-state history simulation (persistent showwarning hook, no catch_warnings in the harness) + analytic reference model'),
 'C18': ('Seeded schedules of 2-4 producer tasks pushing frames (float32/float64/integer, constant frames, offsets up to 1e3 x spread, arrays and images) into one or two running accumulators in one session, with reads interleaved at arbitrary points: after every read the accumulator must equal the batch mean / population std of exactly the frames pushed so far (tolerance scaled by the data dtype and conditioning), two push orders of one multiset must agree, and pushes / reads must never modify a frame. The normalise / background / crop / dead-pixel / detrend / centre-finder identities and metadata retention are evaluated on shared image objects in the same histories.', '5 C18',
         'streaming state machine vs batch reference model under seeded producer schedules + purity fingerprints'),
 'C14': ('Randomness behind a seam: holopy.core.prior.random is replaced by a simulator-owned recorder/feeder during sample(), so the arguments of every primitive draw are observed, Uniform/Gaussian samples must be the primitive output itself, every BoundedGaussian value must be a recorded draw inside the support with the requested shape (scalar for size=None), and under scripted adversarial-but-legal tail draws (chosen slots out of bounds for up to 8 rounds) sample() must return within a bounded number of primitive calls once the script ends (bounded liveness). Derived priors must combine the recorded base draws; generate_guess must equal the documented draw for a seed whatever foreign draws preceded it. Density / guess / scale / identity / rejection clauses are evaluated on the same histories.', '5 C14',
         'RNG-seam simulation with scripted adversarial variates, bounded-liveness check, reference model of the samplers'),
 'C11': ('Seeded programs over a Model treated as a state machine: priors (named / unnamed, equal definitions with distinct identity, deliberate name collisions) are placed - shared, wrapped in arithmetic / ufunc / complex transformations, in lists - at a random subset of sites of a sphere, layered sphere or sphere collection, of a lens theory, of alpha and of the optics; then a random sequence of queries, add_tie calls (legal and illegal subsets, composing), writes into every object the model hands back, scatterer from_parameters round trips (incl. rigid clusters) and restarts through the text form (save, kill the interpreter, load in a pristine one). After every step a reference model (partition of sites by prior identity with union-find for ties + one expression tree per site) must agree: parameter count, unique names, every probe value at every place its prior was used, transformations applied, fixed values untouched, list- and dict-keyed calls equal, guesses used, illegal ties refused without effect, the model never modified by a query, and the reloaded model answering every query like the saved one.', '5 C11',
         'state-machine simulation against a union-find reference model, with restart-through-text and aliasing (purity) faults'),
 'C12': ('Seeded search over simulated inference sessions: models (alpha / exact with a counting calc_func seam, optics from model or data or both, model or data noise, overlap constraints) are evaluated at vectors inside, on and outside the support, giving invalid scatterers or violating the constraint, name-keyed and list-ordered, on full and flattened-subset data and with per-evaluation random pixel subsets (reconstructed from the RNG state at the seam), interleaved with foreign RNG draws; and shipped, as LnpostWrapper.evaluate bound-method pickles through choose_pool, to a simulated pool of real worker processes forked from the master at an earlier point of its history, with seeded dispatch order, duplicate deliveries, worker deaths with retry, unrelated Multisphere / T-matrix / RNG work and an armed solver failure inside workers: every reply must equal the master value bit for bit (or the documented -inf under the solver failure). Local values are checked against an independent closed-form Gaussian posterior built from the public calc_holo.', '5 C12',
         'simulated worker pool (fork, pickled tasks, duplicate / reorder / death faults) + effect counting seam + RNG-seam reconstruction + closed-form reference posterior'),
 'C13': ('Seeded search over simulated fitting sessions (both least-squares strategies, full images and seeded / unseeded pixel subsets, Mie and MieLens incl. fitted lens angle): the same fit again on the same objects, another data set on a strategy that has fitted before, the same model on another strategy, result queries, save -> restart -> load -> re-save, under clock jumps between the two time.time() calls of a fit (simulated clock), foreign draws from the global RNG and a KeyboardInterrupt injected inside the n-th forward evaluation of an earlier fit. Fits must be bitwise repeatable, equal the same fit in a pristine interpreter, leave model and data unchanged and the strategy reusable; a cancellation must propagate (and the fit must return: bounded liveness); the result must be consistent with the forward model at the reported parameters, and reload to an equivalent result. Fixed point, misfit monotonicity, prior bounds and single-sphere recovery are evaluated on the same histories.', '5 C13',
         'history simulation with clock / RNG / cancellation faults and restart, pristine-node refinement of whole fits, reload pairs'),
 'C15': ('Seeded search over simulated sessions with a file-system reference model (path -> snapshot of the last acknowledged object): objects drawn from a grammar over every exported scatterer, theory, prior (incl. complex, arithmetic and ufunc-derived), strategy and model class (ties, constraints, per-channel optics, calc_func) with extreme floats, complex, NumPy scalars of several dtypes, arrays, tuples and explicit Nones are saved to paths and streams, reloaded in the same or a freshly restarted interpreter, re-saved (1..3 cycles), overwritten, read through short-read / non-seekable / buffered streams and written to failing buffered sinks, with libc-level faults (errno, short transfer, EINTR, crash, torn write) injected at chosen call indices of a save or load. An acknowledged save must load to the same class and constructor arguments (containers normalised, Nones included), dumping the reloaded object must reproduce the text byte for byte, == must hold for list/scalar arguments, a faulted operation may only fail, and a load may never return a different fully formed object.', '5 C15',
         'fault-injected I/O simulation (LD_PRELOAD syscall shim, hostile streams, restarts) against a file-system reference model'),
 'C16': ('Seeded search over simulated sessions with a file-system reference model (path -> last acknowledged image): images of random shape / dtype / anisotropic spacing, mono and multi-channel, with scalar, dictionary- or array-valued metadata and names are saved as HDF5 (paths and streams) and TIFF (depth 8 / 16 / float), reloaded in the same or a restarted interpreter, re-saved (1..3 cycles) and overwritten; rasters are loaded with spacing and channel selections; sets of images are averaged with the directory listing returned in seeded permutations (glob seam) and in explicit shuffled orders; update_metadata is applied to shared images; and libc-level faults (errno, short transfer, EINTR, crash) are injected inside saves and loads. Acknowledged HDF5 files must load to identical values, coordinates, name and metadata, TIFFs within the stated quantisation, averages must equal the pixelwise batch mean and relative noise in every order, update_metadata may change only the named fields of a new image, and a node death inside libhdf5 under an armed fault is an expected outcome after which every untainted acknowledged file still loads to its snapshot.', '5 C16',
         'fault-injected I/O simulation (syscall shim, restarts, glob-order seam) against a file-system reference model + purity fingerprints'),
}

def main():
    props = [json.loads(l) for l in open(os.path.join(VERIF, 'properties.jsonl'))]
    checks, na = [], []
    for p in props:
        pid = p['id']
        if pid in CHECKS:
            text, ref, tech = CHECKS[pid]
            checks.append({
                'property_id': pid,
                'quick_cmd': './check %s --tier quick' % pid,
                'thorough_cmd': './check %s --tier thorough' % pid,
                'evidence_file': 'evidence/%s.json' % pid,
                'replay_cmd_template': './check %s --replay {path}' % pid,
                'engine': 'holopy-sim',
                'level_claimed': {'category': 'exploration', 'text': text, 'design_ref': 'DESIGN.md section ' + ref},
                'level_note': 'Sampling, not proof. Trusted base: the simulator (sim/), NumPy/xarray used by the oracles, the reference models written from the property text; real HoloPy sources and Fortran extensions built from the working tree run unmodified; single BLAS thread.',
                'technique': 'deterministic simulation with fault injection: ' + tech,
            })
        elif pid in NA:
            na.append({'property_id': pid, 'reason': 'not applicable to deterministic simulation: ' + NA[pid]})
        else:
            na.append({'property_id': pid, 'reason': NOT_YET.get(pid, 'claimed in DESIGN.md; its simulation check is not built yet, so it is not claimed in this manifest')})
    man = {
        'version': 1,
        'setup_cmd': './setup.sh',
        'hooks': {
            'guard': 'HOLOPY_VERIF',
            'enable': 'No source hook exists in /repo: every seam is a module attribute, process boundary, libc boundary (LD_PRELOAD shim) or public-API argument installed by /verif/sim/seams.py at run time; checks import /repo sources directly and build the Fortran extensions of the working tree into /verif/build.',
            'baseline_off_cmd': '/verif/tools/baseline.py',
            'source_commits': [],
            'add_only': True,
        },
        'engines': [{'name': 'holopy-sim', 'path': 'sim/', 'serves_properties': sorted(CHECKS),
                     'kind_free_text': 'seeded deterministic simulator of a HoloPy session: forked real-interpreter nodes, operation histories, restarts, RNG/clock/glob/solver seams, libc I/O fault shim, pristine-node refinement, reference models, ddmin minimisation and replay files'}],
        'checks': checks,
        'not_applicable': na,
        'notes': 'See DESIGN.md. Exit codes of ./check: 0 held, 1 VIOLATION (with replay file), 2 harness problem.',
    }
    with open(os.path.join(VERIF, 'MANIFEST.json'), 'w') as f:
        json.dump(man, f, indent=1)
    print('checks:', [c['property_id'] for c in checks])

main()
