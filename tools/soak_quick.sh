#!/bin/sh
# usage: tools/soak_quick.sh <first-seed> <last-seed> [ids...]   runs the QUICK check of each id for each seed;
# prints one line per (id, seed) and every violation / harness error.  Not a registered command.
A=$1; B=$2; shift 2
IDS="${*:-C01 C07 C10 C11 C12 C13 C14 C15 C16 C18 C20}"
for s in $(seq $A $B); do
  for c in $IDS; do
    out=$(VERIF_SEED=$s ./check $c --tier quick --no-evidence 2>&1); rc=$?
    echo "seed=$s $c rc=$rc $(echo "$out" | tail -1)"
    [ $rc -ne 0 ] && echo "$out" | grep -v "^VIOLATION" | grep "violation\|HARNESS\|Error" | head -5
  done
done
