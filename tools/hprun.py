#!/venv/bin/python
"""Run a Python script against a HoloPy source tree WITH its compiled Fortran extensions
(built by sim/build.py into /verif/build, found through sim/boot.py's import hook).
usage: tools/hprun.py <repo-dir> <script.py> [args...]"""
import os, sys
VERIF = os.path.dirname(os.path.dirname(os.path.abspath(__file__)))
sys.path.insert(0, VERIF)
os.environ['VERIF_REPO'] = os.path.abspath(sys.argv[1])
from sim import boot
if boot.needs_reexec():
    boot.reexec([os.path.abspath(__file__)] + sys.argv[1:])
boot.boot()
script = sys.argv[2]
sys.argv = sys.argv[2:]
g = {'__name__': '__main__', '__file__': script}
exec(compile(open(script).read(), script, 'exec'), g)
