#!/usr/bin/env python3
"""Sensitivity self-test: every stored change (hand mutants in selftest/mutants/<id>_*.diff and the
sub-agent changes in seeded/<id>/patch.diff) is applied to a scratch worktree of /repo (never to
/repo itself), the property's check is run against that worktree (VERIF_REPO) and must report a
VIOLATION (exit 1).  usage: tools/selftest_mutants.py [--runs N] [pattern]"""
import glob, os, subprocess, sys, shutil
VERIF = os.path.dirname(os.path.dirname(os.path.abspath(__file__)))
runs = {'C01': 250, 'C07': 300, 'C10': 160, 'C11': 600, 'C12': 900, 'C13': 260, 'C14': 700,
        'C15': 800, 'C16': 500, 'C18': 400, 'C20': 300}
pat = sys.argv[1] if len(sys.argv) > 1 else ''
items = []
for f in sorted(glob.glob(os.path.join(VERIF, 'selftest', 'mutants', '*.diff'))):
    items.append((os.path.basename(f)[:3].upper(), f))
for f in sorted(glob.glob(os.path.join(VERIF, 'seeded', '*', 'patch.diff'))):
    import json
    meta = json.load(open(os.path.join(os.path.dirname(f), 'meta.json')))
    if meta.get('obsolete'):
        continue        # its precondition was removed by a repair in /repo (see meta.json)
    items.append((os.path.basename(os.path.dirname(f))[:3], f))
W = '/tmp/hp-selftest-wt'
res = []
for pid, f in items:
    if pat and pat not in f:
        continue
    subprocess.run(['git', '-C', '/repo', 'worktree', 'remove', '--force', W], capture_output=True)
    shutil.rmtree(W, ignore_errors=True)
    subprocess.run(['git', '-C', '/repo', 'worktree', 'add', '-q', '--detach', W, 'HEAD'], check=True)
    a = subprocess.run(['git', '-C', W, 'apply', f], capture_output=True, text=True)
    if a.returncode:
        res.append((pid, f, 'PATCH-DOES-NOT-APPLY'))
    else:
        env = dict(os.environ, VERIF_REPO=W)
        env.pop('VERIF_BOOTED', None)
        r = subprocess.run([os.path.join(VERIF, 'check'), pid, '--runs', str(runs[pid]), '--budget', '900',
                            '--no-evidence'], env=env, capture_output=True, text=True)
        lines = [l for l in r.stdout.splitlines() if l.startswith('violation')]
        res.append((pid, f, 'CAUGHT ' + (lines[0][:110] if lines else '') if r.returncode == 1
                    else 'MISSED (exit %d)' % r.returncode))
    print('%-4s %-48s %s' % (res[-1][0], os.path.relpath(res[-1][1], VERIF), res[-1][2]), flush=True)
subprocess.run(['git', '-C', '/repo', 'worktree', 'remove', '--force', W], capture_output=True)
shutil.rmtree(W, ignore_errors=True)
bad = [r for r in res if not r[2].startswith('CAUGHT')]
print('%d changes, %d caught' % (len(res), len(res) - len(bad)))
sys.exit(1 if bad else 0)
