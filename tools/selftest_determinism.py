#!/usr/bin/env python3
"""Large determinism self-test (DESIGN.md 6 / 11.3): for each claimed property
run the same seeds three times - 16 workers, 3 workers, and 16 workers under
another PYTHONHASHSEED (fresh interpreters each time) - and compare the
event-log digests of every run.   usage: tools/selftest_determinism.py [N] [ids...]"""
import json, os, subprocess, sys, tempfile
VERIF = os.path.dirname(os.path.dirname(os.path.abspath(__file__)))
n = int(sys.argv[1]) if len(sys.argv) > 1 else 40
ids = sys.argv[2:] or ['C01', 'C07', 'C10', 'C11', 'C12', 'C13', 'C14', 'C15', 'C16', 'C18', 'C20']
bad = 0
for pid in ids:
    outs = []
    for jobs, hs in ((16, '0'), (3, '0'), (16, '12345')):
        fd, path = tempfile.mkstemp(suffix='.json'); os.close(fd)
        env = dict(os.environ, PYTHONHASHSEED=hs, VERIF_JOBS=str(jobs))
        env.pop('VERIF_BOOTED', None)
        r = subprocess.run([os.path.join(VERIF, 'check'), pid, '--runs', str(n), '--budget', '3000',
                            '--no-evidence', '--digests', path], env=env, stdout=subprocess.PIPE,
                           stderr=subprocess.STDOUT, text=True)
        try:
            outs.append(json.load(open(path)))
        except Exception:
            outs.append({'error': r.stdout[-500:]})
        os.unlink(path)
    same = outs[0] == outs[1] == outs[2] and 'error' not in outs[0] and len(outs[0]) == n
    diff = [k for k in outs[0] if outs[0].get(k) != outs[1].get(k) or outs[0].get(k) != outs[2].get(k)]
    print('%s: %d runs x 3 configurations: %s %s' % (pid, len(outs[0]), 'IDENTICAL' if same else 'DIFFER', diff[:5] if not same else ''))
    bad += 0 if same else 1
sys.exit(1 if bad else 0)
