#!/bin/sh
# usage: tools/mutant.sh <patch-file> <check args...>   apply patch to /repo, run check, revert
P="$1"; shift
git -C /repo apply "$P" || { echo "patch failed"; exit 3; }
cd /verif && timeout 1800 ./check "$@" --no-evidence 2>&1 | tail -6
git -C /repo checkout -- . 
git -C /repo status --short
