#!/venv/bin/python
"""Run the repository's pinned test command (guard OFF) and compare the set of
passing tests with /root/.vp/BASELINE.json's stable_pass list.
Exit 0 iff every stable_pass test still passes."""
import json, os, subprocess, sys, tempfile
import xml.etree.ElementTree as ET

repo = os.environ.get('VERIF_REPO', '/repo')
base = json.load(open('/root/.vp/BASELINE.json'))
fd, xml = tempfile.mkstemp(suffix='.xml'); os.close(fd)
env = {k: v for k, v in os.environ.items() if k not in ('HOLOPY_VERIF', 'LD_PRELOAD', 'VERIF_BOOTED')}
cmd = ['/venv/bin/python', '-m', 'pytest', '-ra', '-q', '-p', 'no:cacheprovider', '--timeout=900',
       '--continue-on-collection-errors', '--junitxml=' + xml]
p = subprocess.run(cmd, cwd=repo, env=env, stdout=subprocess.PIPE, stderr=subprocess.STDOUT, text=True)
passed = set()
try:
    for tc in ET.parse(xml).getroot().iter('testcase'):
        if not any(ch.tag in ('failure', 'error', 'skipped') for ch in tc):
            passed.add('%s::%s' % (tc.get('classname'), tc.get('name')))
finally:
    os.unlink(xml)
want = set(base['stable_pass'])
missing = sorted(want - passed)
print(p.stdout.strip().splitlines()[-1] if p.stdout.strip() else '')
print('baseline stable_pass=%d now-passing=%d missing=%d new-passing=%d' % (len(want), len(passed), len(missing), len(passed - want)))
for m in missing[:40]:
    print('  MISSING', m)
sys.exit(1 if missing else 0)
