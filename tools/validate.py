#!/usr/bin/env python3-vt
"""Validate MANIFEST.json and every evidence/<id>.json against the task's schemas
(run with python3-vt, which has jsonschema).   usage: tools/validate.py"""
import json, os, sys, glob
import jsonschema
V = os.path.dirname(os.path.dirname(os.path.abspath(__file__)))
bad = 0
def check(doc, schema, label):
    global bad
    try:
        jsonschema.validate(json.load(open(doc)), json.load(open(schema)))
        print('valid  ', label)
    except Exception as e:
        bad += 1
        print('INVALID', label, str(e)[:300])
check(V + '/MANIFEST.json', '/root/.vp/MANIFEST.schema.json', 'MANIFEST.json')
m = json.load(open(V + '/MANIFEST.json'))
props = [json.loads(l)['id'] for l in open(V + '/properties.jsonl')]
claimed = [c['property_id'] for c in m['checks']]
na = [n['property_id'] if isinstance(n, dict) else n for n in m['not_applicable']]
if sorted(claimed + na) != sorted(props):
    bad += 1
    print('INVALID: checks + not_applicable do not partition the properties', sorted(set(props) - set(claimed + na)))
for c in m['checks']:
    f = V + '/' + c['evidence_file']
    if not os.path.exists(f):
        bad += 1
        print('MISSING', f)
    else:
        check(f, '/root/.vp/EVIDENCE.schema.json', c['evidence_file'])
sys.exit(1 if bad else 0)
