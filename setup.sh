#!/bin/sh
# Build the I/O shim and the Fortran extensions of /repo's working tree into /verif/build (offline).
HERE="$(cd "$(dirname "$0")" && pwd)"
cd "$HERE" || exit 2
mkdir -p build evidence replays
exec /venv/bin/python -c "import sys; sys.path.insert(0,'$HERE'); from sim import build; import os; print(build.ensure_shim()); print(build.ensure_extensions(os.environ.get('VERIF_REPO','/repo')))"
